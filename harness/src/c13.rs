//! C13: transformation algebra (exact-arithmetic inputs), rotation shapes, level-wise apply (sequential and parallel).
use crate::gen;
use crate::out::Out;
use crate::rng::Rng;
use crate::snap;
use crate::sx::*;
use pdbtbx::*;

fn mat_sx(t: &TransformationMatrix) -> Sx {
    // the sign of a zero is not part of the value (the model computes with exact rationals)
    l(t.matrix().iter().flat_map(|r| r.iter().map(|v| f(*v + 0.0))).collect())
}
fn pt_sx(p: (f64, f64, f64)) -> Sx {
    l(vec![f(p.0 + 0.0), f(p.1 + 0.0), f(p.2 + 0.0)])
}
/// matrices whose entries are multiples of 1/4 in [-4, 4]: products and sums of a few factors stay exact in binary64
fn small_matrix(rng: &mut Rng) -> TransformationMatrix {
    let mut m = [[0.0f64; 4]; 3];
    for r in m.iter_mut() {
        for v in r.iter_mut() {
            *v = rng.range(-16, 16) as f64 / 4.0;
        }
    }
    TransformationMatrix::from_matrix(m)
}
fn small_point(rng: &mut Rng) -> (f64, f64, f64) {
    let g = |r: &mut Rng| r.range(-512, 512) as f64 / 8.0;
    (g(rng), g(rng), g(rng))
}
fn general_matrix(rng: &mut Rng) -> TransformationMatrix {
    let mut m = [[0.0f64; 4]; 3];
    for r in m.iter_mut() {
        for v in r.iter_mut() {
            *v = (rng.next() as f64 / u64::MAX as f64 - 0.5) * 20.0;
        }
    }
    TransformationMatrix::from_matrix(m)
}

pub fn run(seed: u64, count: usize, thorough: bool, out: &mut Out) {
    let mut rng = Rng::new(seed);
    // constructors
    out.case("C13", call("ctor", vec![y("identity")]), mat_sx(&TransformationMatrix::identity()), "prop:identity", true);
    for _ in 0..count {
        // ---- exact algebra
        let a = small_matrix(&mut rng);
        let b2 = small_matrix(&mut rng);
        let p = small_point(&mut rng);
        out.case("C13", call("apply", vec![mat_sx(&a), pt_sx(p)]), pt_sx(a.apply(p)), "prop:apply", true);
        out.case("C13", call("combine", vec![mat_sx(&a), mat_sx(&b2)]), mat_sx(&a.combine(&b2)), "prop:combine", true);
        // identity leaves every position unchanged
        out.case("C13", call("apply", vec![mat_sx(&TransformationMatrix::identity()), pt_sx(p)]), pt_sx(TransformationMatrix::identity().apply(p)), "prop:identity", true);
        // chains of up to n factors: combined then applied, and applied one after the other, agree with the model
        let n = 1 + rng.below(if thorough { 4 } else { 3 });
        let factors: Vec<TransformationMatrix> = (0..n)
            .map(|_| {
                let mut m = [[0.0f64; 4]; 3];
                for r in m.iter_mut() {
                    for v in r.iter_mut() {
                        *v = rng.range(-4, 4) as f64 / 2.0;
                    }
                }
                TransformationMatrix::from_matrix(m)
            })
            .collect();
        let combined = factors.iter().fold(TransformationMatrix::identity(), |acc, m| acc.combine(m));
        let sequential = factors.iter().fold(p, |q, m| m.apply(q));
        let args = vec![l(factors.iter().map(mat_sx).collect()), pt_sx(p)];
        out.case("C13", call("chain", args.clone()), pt_sx(combined.apply(p)), "prop:combine-order", n >= 2);
        out.case("C13", call("chain", args), pt_sx(sequential), "prop:combine-order", n >= 2);
        out.count(&format!("chain-len{n}"));
        // translation / magnify / scale constructors
        let (tx, ty, tz) = small_point(&mut rng);
        out.case("C13", call("ctor", vec![y("translation"), f(tx), f(ty), f(tz)]), mat_sx(&TransformationMatrix::translation(tx, ty, tz)), "prop:translation", true);
        let fac = rng.range(-32, 32) as f64 / 8.0;
        out.case("C13", call("ctor", vec![y("magnify"), f(fac)]), mat_sx(&TransformationMatrix::magnify(fac)), "prop:magnify", true);
        out.case("C13", call("ctor", vec![y("scale"), f(tx), f(ty), f(tz)]), mat_sx(&TransformationMatrix::scale(tx, ty, tz)), "prop:scale", true);
        // ---- rotations: shape of the constructor and unit length of (cos, sin)
        let deg = match rng.below(6) {
            0 => 0.0,
            1 => 90.0,
            2 => 180.0,
            3 => -270.0,
            _ => (rng.next() as f64 / u64::MAX as f64 - 0.5) * 1440.0,
        };
        for (axis, r) in [("x", TransformationMatrix::rotation_x(deg)), ("y", TransformationMatrix::rotation_y(deg)), ("z", TransformationMatrix::rotation_z(deg))] {
            out.case("C13", call("rotshape", vec![y(axis), mat_sx(&r)]), y("ok"), "prop:rotation-shape", true);
            // rounding: the implementation stays within the forward error bound of the exact value
            let q = small_point(&mut rng);
            out.case("C13", call("applyfl", vec![mat_sx(&r), pt_sx(q), pt_sx(r.apply(q))]), y("ok"), "corr:apply-rounding", true);
        }
        let g = general_matrix(&mut rng);
        let q = (rng.range(-1000, 1000) as f64 / 7.0, rng.range(-1000, 1000) as f64 / 3.0, rng.range(-1000, 1000) as f64 / 11.0);
        out.case("C13", call("applyfl", vec![mat_sx(&g), pt_sx(q), pt_sx(g.apply(q))]), y("ok"), "corr:apply-rounding", true);
    }
    // ---- structure level: every level, sequential and parallel, pools
    let pools: Vec<usize> = if thorough { vec![1, 2, 3, 4, 8, 16] } else { vec![1, 4, 16] };
    let n_struct = (count / 8).max(4);
    for i in 0..n_struct {
        let cfg = gen::Ragged { allow_empty: i % 2 == 0, max_models: 2, max_children: 3, max_atoms: 3, serial_range: 20 };
        let mut p = gen::ragged(&mut rng, &cfg);
        // positions on the exact grid
        for a in p.atoms_mut() {
            let q = small_point(&mut rng);
            let _ = a.set_pos(q);
            // some atoms carry a tensor: a transformation moves the position and touches nothing else
            if rng.chance(1, 3) {
                a.set_anisotropic_temperature_factors([[2.0, 0.25, 0.5], [0.25, 1.0, -0.125], [0.5, -0.125, 3.0]]);
            }
        }
        let t = small_matrix(&mut rng);
        let psx = snap::pdb(&p, &snap::atom);
        let mut path = [0usize; 5];
        for k in 0..5 {
            path[k] = rng.below(2);
        }
        for level in ["pdb", "model", "chain", "residue", "conformer", "atom"] {
            let depth = ["pdb", "model", "chain", "residue", "conformer", "atom"].iter().position(|x| *x == level).unwrap_or(0);
            for par in [false, true] {
                if par && level == "atom" {
                    continue;
                }
                let threads = *rng.pick(&pools);
                let pool = rayon::ThreadPoolBuilder::new().num_threads(threads).build().expect("pool");
                let mut q = p.clone();
                pool.install(|| match level {
                    "pdb" => {
                        if par {
                            q.par_apply_transformation(&t)
                        } else {
                            q.apply_transformation(&t)
                        }
                    }
                    "model" => {
                        if let Some(m) = q.model_mut(path[0]) {
                            if par {
                                m.par_apply_transformation(&t)
                            } else {
                                m.apply_transformation(&t)
                            }
                        }
                    }
                    "chain" => {
                        if let Some(c) = q.model_mut(path[0]).and_then(|m| m.chain_mut(path[1])) {
                            if par {
                                c.par_apply_transformation(&t)
                            } else {
                                c.apply_transformation(&t)
                            }
                        }
                    }
                    "residue" => {
                        if let Some(r) = q.model_mut(path[0]).and_then(|m| m.chain_mut(path[1])).and_then(|c| c.residue_mut(path[2])) {
                            if par {
                                r.par_apply_transformation(&t)
                            } else {
                                r.apply_transformation(&t)
                            }
                        }
                    }
                    "conformer" => {
                        if let Some(c) = q
                            .model_mut(path[0])
                            .and_then(|m| m.chain_mut(path[1]))
                            .and_then(|c| c.residue_mut(path[2]))
                            .and_then(|r| r.conformer_mut(path[3]))
                        {
                            if par {
                                c.par_apply_transformation(&t)
                            } else {
                                c.apply_transformation(&t)
                            }
                        }
                    }
                    _ => {
                        if let Some(a) = q
                            .model_mut(path[0])
                            .and_then(|m| m.chain_mut(path[1]))
                            .and_then(|c| c.residue_mut(path[2]))
                            .and_then(|r| r.conformer_mut(path[3]))
                            .and_then(|c| c.atom_mut(path[4]))
                        {
                            a.apply_transformation(&t)
                        }
                    }
                });
                out.case(
                    "C13",
                    call("level", vec![y(level), l(path[..depth].iter().map(|k| z(*k as i128)).collect()), mat_sx(&t), psx.clone()]),
                    snap::pdb(&q, &snap::atom),
                    if par { "prop:par-level-apply" } else { "prop:level-apply" },
                    p.total_atom_count() > 0,
                );
                out.count(&format!("level:{level}:{}", if par { "par" } else { "seq" }));
            }
        }
    }
}
