//! C17: space-group tables, exhaustively over 0..=231 and all symbols, both formats.
use crate::out::Out;
use crate::sx::*;
use pdbtbx::*;
use std::io::BufWriter;

fn iop(t: &TransformationMatrix) -> Sx {
    let m = t.matrix();
    let mut rot = Vec::new();
    let mut tr = Vec::new();
    for row in m.iter() {
        for (j, v) in row.iter().enumerate() {
            if j < 3 {
                if *v == 0.0 || *v == 1.0 || *v == -1.0 {
                    rot.push(z(*v as i128));
                } else {
                    rot.push(y("not-integer"));
                }
            } else {
                let k = (v * 12.0).round();
                if (v * 12.0 - k).abs() <= 12.0 * 2f64.powi(-50) {
                    tr.push(z(k as i128));
                } else {
                    tr.push(y("not-a-twelfth"));
                }
            }
        }
    }
    l(vec![l(rot), l(tr)])
}

fn one_atom_pdb(sym: Symmetry) -> PDB {
    let mut p = PDB::new();
    let mut m = Model::new(1);
    m.add_atom(Atom::new(false, 1, "1", "CA", 1.0, 2.0, 3.0, 1.0, 10.0, "C", 0).expect("atom"), "A", (1, None), ("ALA", None));
    p.add_model(m);
    p.unit_cell = Some(UnitCell::new(10.0, 20.0, 30.0, 90.0, 90.0, 90.0));
    p.symmetry = Some(sym);
    p
}

fn reread(bytes: &[u8], format: Format) -> Sx {
    let r = crate::guarded(|| {
        ReadOptions::default().set_format(format).set_level(StrictnessLevel::Loose).read_raw(std::io::BufReader::new(bytes))
    });
    match r {
        None => y("panic"),
        Some(Err(_)) => y("-"),
        Some(Ok((p, _))) => opt(p.symmetry.as_ref().map(Symmetry::index), |i| z(i as i128)),
    }
}

pub fn run(out: &mut Out) {
    for i in 0..=231usize {
        let r = crate::guarded(|| Symmetry::from_index(i).map(|s| s.index()));
        let obs = match r {
            Some(o) => opt(o, |k| z(k as i128)),
            None => y("panic"),
        };
        out.case("C17", call("from_index", vec![z(i as i128)]), obs, "prop:from_index", true);
        out.count("from_index");
    }
    for i in 1..=230usize {
        let Some(sym) = crate::guarded(|| Symmetry::from_index(i)).flatten() else { continue };
        let info = l(vec![
            l(vec![s(sym.herman_mauguin_symbol())]),
            l(vec![s(sym.hall_symbol())]),
            l(vec![z(sym.z() as i128)]),
            l(vec![l(sym.transformations().iter().map(iop).collect())]),
        ]);
        out.case("C17", call("info", vec![z(i as i128)]), info, "corr:tables-T2", true);
        out.case(
            "C17",
            call("group", vec![z(i as i128), l(sym.transformations().iter().map(iop).collect())]),
            y("ok"),
            "prop:operators-form-a-group",
            true,
        );
        // absolute operators = fractional with translations scaled by the cell edges
        // in cells of every shape (the statement speaks of the edges only, whatever the angles)
        let abs_ok = [(90.0, 90.0, 90.0), (90.0, 100.0, 90.0), (90.0, 90.0, 120.0), (70.0, 80.0, 110.0)].iter().all(|(al, be, ga)| {
            let cell = UnitCell::new(4.0, 8.0, 16.0, *al, *be, *ga);
            let abs = sym.transformations_absolute(&cell);
            abs.len() == sym.transformations().len()
                && sym.transformations().iter().zip(abs.iter()).all(|(f, a)| {
                    let (fm, am) = (f.matrix(), a.matrix());
                    (0..3).all(|r| (0..3).all(|c| fm[r][c] == am[r][c]) && am[r][3] == fm[r][3] * [4.0, 8.0, 16.0][r])
                })
        });
        out.case("C17", call("absolute", vec![z(i as i128)]), b(abs_ok), "prop:absolute-scaled", true);
        // every spelling of both symbols finds the group again
        for (sym_text, label) in [(sym.herman_mauguin_symbol().to_string(), "hm"), (sym.hall_symbol().to_string(), "hall")] {
            for padded in [sym_text.clone(), format!("  {sym_text} "), format!("{sym_text}\t")] {
                let o = Symmetry::new(&padded).map(|x| x.index());
                out.case("C17", call("expect", vec![z(i as i128), s(&padded)]), opt(o, |k| z(k as i128)), &format!("prop:new-{label}"), true);
                out.case("C17", call("new", vec![s(&padded)]), opt(o, |k| z(k as i128)), "corr:lookup", true);
            }
        }
        // both formats
        let p = one_atom_pdb(sym.clone());
        let mut buf = Vec::new();
        save_pdb_raw(&p, BufWriter::new(&mut buf), StrictnessLevel::Loose);
        let o = reread(&buf, Format::Pdb);
        out.case("C17", call("cryst1spec", vec![z(i as i128)]), o.clone(), "prop:cryst1-roundtrip", true);
        let o_corr = if o == y("panic") { y("-") } else { o };
        out.case("C17", call("cryst1", vec![z(i as i128)]), o_corr, "corr:cryst1", true);
        let mut buf = Vec::new();
        save_mmcif_raw(&p, BufWriter::new(&mut buf));
        let o = reread(&buf, Format::Mmcif);
        out.case("C17", call("cifspec", vec![z(i as i128)]), o, "prop:mmcif-roundtrip", true);
        out.count("group");
    }
    for bad in ["", "P 1 1 1 1", "Q 7", "p 1", "P  1"] {
        let o = Symmetry::new(bad).map(|x| x.index());
        out.case("C17", call("new", vec![s(bad)]), opt(o, |k| z(k as i128)), "prop:new-unknown", true);
    }
}
