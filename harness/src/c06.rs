//! C06: reading mmCIF input is total (terminates, no panic, always classified), every diagnostic renders.
use crate::ciftext;
use crate::out::Out;
use crate::rng::Rng;
use crate::sx::*;
use pdbtbx::*;
use std::sync::mpsc;
use std::time::Duration;

/// seconds after which a read counts as not terminating
const LIMIT: u64 = 20;

/// read under catch_unwind on its own thread with a time limit: (observation, panic site)
pub fn observe(bytes: &[u8], opts: usize, level: usize) -> (Sx, String) {
    let (tx, rx) = mpsc::channel();
    let data = bytes.to_vec();
    std::thread::Builder::new()
        .stack_size(64 << 20)
        .spawn(move || {
            let level_v = crate::snap::strictness(level);
            let r = crate::guarded(|| {
                ReadOptions::default()
                    .set_format(Format::Mmcif)
                    .set_level(level_v)
                    .set_discard_hydrogens(opts & 1 != 0)
                    .set_only_first_model(opts & 2 != 0)
                    .set_only_atomic_coords(opts & 4 != 0)
                    .read_raw(std::io::BufReader::new(&data[..]))
            });
            let obs = match r {
                None => (l(vec![y("panic"), y("-")]), crate::LAST_PANIC.with(|p| p.borrow().clone())),
                Some(r) => {
                    let errs = match &r {
                        Ok((_, e)) => e,
                        Err(e) => e,
                    };
                    let render = crate::guarded(|| errs.iter().map(|e| format!("{e}").len() + format!("{e:?}").len()).sum::<usize>()).is_some();
                    let site = if render { String::new() } else { crate::LAST_PANIC.with(|p| p.borrow().clone()) };
                    (l(vec![y("classified"), b(render)]), site)
                }
            };
            let _ = tx.send(obs);
        })
        .expect("spawn");
    match rx.recv_timeout(Duration::from_secs(LIMIT)) {
        Ok(o) => o,
        Err(_) => (l(vec![y("hang"), y("-")]), "no result within the time limit".to_string()),
    }
}

fn emit(out: &mut Out, bytes: &[u8], opts: usize, level: usize, label: &str) {
    let (obs, site) = observe(bytes, opts, level);
    let bad = obs != l(vec![y("classified"), b(true)]);
    if bad {
        out.count(&format!("site:{site}"));
        if std::env::var("PV_DEBUG").is_ok() {
            eprintln!("BAD {label} {site} opts={opts} level={level} input={:?}", String::from_utf8_lossy(&bytes[bytes.len().saturating_sub(300)..]));
        }
    }
    out.case("C06", call("total", vec![Sx::S(bytes.to_vec()), z(opts as i128), z(level as i128)]), obs, "prop:total", true);
    out.count(&format!("{label}{}", if bad { ":BAD" } else { "" }));
    // on ASCII input the reader model predicts the whole outcome (structure, metadata, diagnostics)
    // (once: the profile with overflow checks reads the same inputs)
    if !cfg!(debug_assertions) && bytes.is_ascii() && !bad && bytes.len() < 20_000 {
        let (obs, _) = crate::c01::read_obs_format(bytes, Format::Mmcif, opts, level);
        out.case("C06", call("read", vec![z(opts as i128), z(level as i128), Sx::S(bytes.to_vec())]), obs, "corr:reader-model", true);
    }
}

pub fn run(seed: u64, count: usize, thorough: bool, out: &mut Out) {
    let mut rng = Rng::new(seed);
    let base = ciftext::canonical_file();
    // 1. every prefix of the generated file
    let bytes = base.as_bytes();
    for k in 0..=bytes.len() {
        if thorough || k % 2 == 0 || k + 200 > bytes.len() {
            emit(out, &bytes[..k], rng.below(8), rng.below(3), "prefix");
        }
    }
    // 1b. prefixes with one multi-byte character somewhere inside (byte length and character count differ at the cut)
    for k in 1..=bytes.len() {
        if thorough || k % 3 == 0 || k + 120 > bytes.len() {
            let j = rng.below(k);
            let s = *rng.pick(&["\u{e9}".as_bytes(), "\u{2028}".as_bytes(), "\u{1F600}".as_bytes()]);
            let mut x = bytes[..j].to_vec();
            x.extend_from_slice(s);
            x.extend_from_slice(&bytes[j + 1..k]);
            emit(out, &x, rng.below(8), rng.below(3), "prefix-nonascii");
        }
    }
    // 2. every single-token replacement by each token class
    let toks = ciftext::tokens(&base);
    for i in 1..toks.len() {
        for (class, values) in ciftext::CLASSES {
            let picks: Vec<&str> = if thorough { values.to_vec() } else { vec![*rng.pick(values)] };
            for v in picks {
                let mut t = toks.clone();
                t[i].0 = v.to_string();
                emit(out, ciftext::join(&t).as_bytes(), rng.below(8), rng.below(3), &format!("token:{class}"));
                // the same with the replaced token (and the two after it) on the line of the token before: a diagnostic in the
                // middle of a line, at a column beyond the length of the item it marks
                if t[i - 1].1.contains('\n') && rng.chance(1, 2) {
                    for j in (i - 1)..(i + 2).min(t.len()) {
                        if t[j].1.contains('\n') {
                            t[j].1 = " ".to_string();
                        }
                    }
                    emit(out, ciftext::join(&t).as_bytes(), rng.below(8), rng.below(3), &format!("token-midline:{class}"));
                }
            }
        }
        // token deleted
        let mut t = toks.clone();
        t.remove(i);
        emit(out, ciftext::join(&t).as_bytes(), rng.below(8), rng.below(3), "token:deleted");
    }
    // 2b. long lines with characters of several bytes at every offset around the 100th byte of what follows a token
    //     (diagnostics and look-aheads show the rest of the line: cut at a byte count, not inside a character)
    {
        let lines: Vec<&str> = base.lines().collect();
        let targets: Vec<usize> = (0..lines.len()).filter(|k| !lines[*k].starts_with(';') && !lines[*k].is_empty()).collect();
        // (every line for the offsets around 100, a sample of lines for the others)
        let pairs: Vec<(usize, usize)> = (60..=130usize)
            .flat_map(|n| if (92..=104).contains(&n) { targets.iter().map(|t| (n, *t)).collect::<Vec<_>>() } else { vec![(n, targets[(n * 7) % targets.len()])] })
            .collect();
        for (n, at) in pairs {
            let mut t: Vec<String> = lines.iter().map(|l| l.to_string()).collect();
            t[at] = format!("{} # {}{}{}", t[at], "-".repeat(n), *rng.pick(&["\u{c5}", "\u{c5}\u{c5}", "\u{1F600}"]), "-".repeat(30));
            emit(out, (t.join("\n") + "\n").as_bytes(), rng.below(8), rng.below(3), "long-line-nonascii");
            // and with a further item after the last loop (the look-ahead that ends the loop meets a tag, not the end of the input)
            emit(out, (t.join("\n") + "\n_tail.item 1\n").as_bytes(), rng.below(8), rng.below(3), "long-line-nonascii+item");
            // the same without a data block in front (the first diagnostic quotes the first line)
            if n % 4 == 0 {
                let first = format!("{}{}{} _x 1\n", "y".repeat(n), "\u{c5}", "z".repeat(20));
                emit(out, first.as_bytes(), rng.below(8), rng.below(3), "long-first-line-nonascii");
            }
        }
    }
    // 3. structural faults, every level; all option sets on a sample
    for (name, text) in ciftext::structural_faults(&base) {
        let class = name.split('-').next().unwrap_or("x").to_string();
        for level in 0..3 {
            emit(out, text.as_bytes(), if level == 0 { 0 } else { rng.below(8) }, level, &format!("fault:{class}"));
        }
    }
    // 4. multi-fault mutations, all options and levels
    for i in 0..count {
        let m = if i == 0 { base.clone() } else { ciftext::multi_fault(&base, &mut rng) };
        let (opts, level) = if i < 24 { (i % 8, i / 8) } else { (rng.below(8), rng.below(3)) };
        emit(out, m.as_bytes(), opts, level, "multi-fault");
    }
    // 5. corpus file of the repository: sampled prefixes and token replacements, invalid UTF-8
    if let Ok(corpus) = std::fs::read("/repo/example-pdbs/1ubq.cif") {
        let n = if thorough { 300 } else { 40 };
        for _ in 0..n {
            let k = rng.below(corpus.len() + 1);
            emit(out, &corpus[..k], rng.below(8), rng.below(3), "corpus-prefix");
        }
        if let Ok(text) = std::str::from_utf8(&corpus) {
            let toks = ciftext::tokens(text);
            for _ in 0..n {
                let i = 1 + rng.below(toks.len() - 1);
                let class = rng.pick(ciftext::CLASSES);
                let mut t = toks.clone();
                t[i].0 = (*rng.pick(class.1)).to_string();
                emit(out, ciftext::join(&t).as_bytes(), rng.below(8), rng.below(3), "corpus-token");
            }
        }
        out.count("corpus:present");
    } else {
        out.count("corpus:absent");
    }
    for bad in [&b"\xff\xfe"[..], b"data_x\n_a.b \xff\n", b"data_\xc3", b"data_x\n_a.b '\xe9'\n"] {
        emit(out, bad, 0, 1, "invalid-utf8");
    }
}
