//! C03: PDB write -> read round trip.
use crate::c01::{file, read_obs_format};
use crate::gen::{self, Shape};
use crate::out::Out;
use crate::rng::Rng;
use crate::sx::*;
use pdbtbx::*;

pub fn write(pdb: &PDB, level: usize) -> Vec<u8> {
    let mut buf = Vec::new();
    save_pdb_raw(pdb, std::io::BufWriter::new(&mut buf), crate::snap::strictness(level));
    buf
}

/// a number inside [lo, hi] (thousandths), with an arbitrary tail of digits; sometimes on a rounding boundary or at the column limit
fn value(rng: &mut Rng, lo: i64, hi: i64, scale: f64) -> f64 {
    match rng.below(10) {
        0 => lo as f64 / scale,
        1 => hi as f64 / scale,
        2 => rng.range(lo, hi) as f64 / scale,
        3 => (rng.range(lo + 1, hi - 1) as f64 + 0.5) / scale,
        4 => rng.range(-4, 4) as f64 / scale / 10.0,
        _ => (rng.range(lo + 1, hi - 1) as f64 + (rng.range(-499_999, 499_999) as f64) / 1e6) / scale,
    }
}

const IDS: &[&str] = &["1ABC", "x", "7xy", "4HHB", "AB", "0XYZ", "00A1", "1E12", "0123", "12"];
const RES: &[&str] = &["001", "0A1", "00", "A", "DG", "HOH", "MSE"];
const ATOMS: &[&str] = &["0A", "00", "O5'", "1HB", "C", "N"];

/// does the reader's SEQRES validation describe this structure (consecutive numbering, no insertion code, no water, one name per residue)?
pub fn seqres_friendly(pdb: &PDB) -> bool {
    pdb.chains().all(|c| {
        let rs: Vec<&Residue> = c.residues().collect();
        rs.windows(2).all(|w| w[1].serial_number() == w[0].serial_number() + 1)
            && rs.iter().all(|r| r.insertion_code().is_none() && r.name().map_or(false, |n| n != "HOH"))
    })
}

pub fn build(rng: &mut Rng, i: usize) -> PDB {
    let friendly = i % 2 == 1;
    let sh = Shape {
        max_models: 3,
        max_chains: 3,
        max_residues: 4,
        max_altlocs: 3,
        max_atoms: 4,
        same_shape_models: true,
        hetero: true,
        icodes: !friendly,
        negative_numbers: true,
        elements_known: i % 3 != 0,
        grid8: false,
        atf: i % 4 < 2,
    };
    let mut pdb = gen::structure(rng, &sh);
    if friendly {
        // consecutive residue numbers, no water
        for ch in pdb.chains_mut() {
            let first = ch.residues().next().map_or(1, Residue::serial_number);
            for (k, r) in ch.residues_mut().enumerate() {
                r.set_serial_number(first + k as isize);
                for c in r.conformers_mut() {
                    if c.name() == "HOH" {
                        let _ = c.set_name("SER");
                    }
                }
            }
        }
    }
    // numbers at the ends of their columns: the last residue of the structure 9999, the first -999 (not 9999 directly before a
    // residue 0: that is what a wrapped number looks like)
    if !friendly && rng.chance(1, 6) {
        let starts_at_zero = pdb.residues().next().map_or(false, |r| r.serial_number() == 0);
        let n_models = pdb.model_count();
        for mi in 0..n_models {
            if let Some(m) = pdb.model_mut(mi) {
                let n = m.residue_count();
                if rng.chance(1, 2) && !(starts_at_zero && n_models > 1) {
                    if let Some(r) = m.residues_mut().nth(n.saturating_sub(1)) {
                        r.set_serial_number(9999);
                    }
                } else if let Some(r) = m.residues_mut().next() {
                    r.set_serial_number(-999);
                }
            }
        }
    }
    // model serial numbers of one to four digits
    let first = *rng.pick(&[0usize, 1, 1, 7, 9, 10, 98, 999, 4242, 9997]);
    let single = pdb.model_count() == 1;
    for (k, m) in pdb.models_mut().enumerate() {
        m.set_serial_number(if single && first % 2 == 0 { 0 } else { first + k });
    }
    let per_model = pdb.model(0).map_or(1, Model::atom_count).max(1);
    let seed = rng.next();
    let mut k = 0usize;
    for a in pdb.atoms_mut() {
        let _ = a.set_pos((value(rng, -999_999, 9_999_999, 1000.0), value(rng, -999_999, 9_999_999, 1000.0), value(rng, -999_999, 9_999_999, 1000.0)));
        let _ = a.set_occupancy(value(rng, 0, 100, 100.0));
        let _ = a.set_b_factor(value(rng, 0, 99_999, 100.0));
        // what has to correspond between models follows the position inside the model
        let mut pos = Rng::new(seed ^ (k % per_model) as u64);
        a.set_charge(if pos.chance(1, 6) { pos.range(-9, 9) as isize } else { 0 });
        // (an atom without a known element keeps its name: after a renaming the element could be read out of the new name)
        if pos.chance(1, 8) && a.element().is_some() {
            let _ = a.set_name(*pos.pick(ATOMS));
        }
        if a.anisotropic_temperature_factors().is_some() {
            let v: Vec<f64> = (0..6).map(|_| value(rng, -9_999, 99_999, 10_000.0)).collect();
            a.set_anisotropic_temperature_factors([[v[0], v[3], v[4]], [v[3], v[1], v[5]], [v[4], v[5], v[2]]]);
        }
        k += 1;
    }
    // one value just outside its columns: the validation has to report it (a structure it is silent about is judged by the round trip)
    if rng.chance(1, 5) {
        let n = pdb.atom_count().max(1);
        let at = rng.below(n);
        let which = rng.below(8);
        if let Some(a) = pdb.atoms_mut().nth(at) {
            let (x, y, z) = a.pos();
            let low = *rng.pick(&[-1000.0, -999.9996, -1234.5]);
            let high = *rng.pick(&[10000.0, 9999.9996, 12345.678]);
            match which {
                0 => drop(a.set_x(low)),
                1 => drop(a.set_y(low)),
                2 => drop(a.set_z(low)),
                3 => drop(a.set_x(high)),
                4 => drop(a.set_y(high)),
                5 => drop(a.set_z(high)),
                6 => drop(a.set_occupancy(*rng.pick(&[1000.0, 999.996]))),
                _ => drop(a.set_b_factor(*rng.pick(&[1000.0, 999.996]))),
            }
            let _ = (x, y, z);
        }
    }
    // residue names with leading zeros, modifications
    let n_conf = pdb.model(0).map_or(1, Model::conformer_count).max(1);
    // MODRES names a residue, not one of its conformers: only residues with a single conformer get a modification
    let single: Vec<bool> = pdb.residues().flat_map(|r| std::iter::repeat(r.conformer_count() == 1).take(r.conformer_count())).collect();
    let mut k = 0usize;
    for c in pdb.conformers_mut() {
        let mut pos = Rng::new(seed ^ 0x5555 ^ (k % n_conf) as u64);
        if pos.chance(1, 6) && !friendly {
            let _ = c.set_name(*pos.pick(RES));
        }
        // MODRES records describe the first model (that is where the readers put a modification)
        if pos.chance(1, 8) && k < n_conf && single[k] {
            let _ = c.set_modification(((*pos.pick(&["MET", "SER", "001"])).to_string(), (*pos.pick(&["SELENOMETHIONINE", "PHOSPHOSERINE", "A", ""])).to_string()));
        }
        k += 1;
    }
    // a modified residue that shares its number with the residue before it (52, 52A): the MODRES record has to find it by
    // number and insertion code; every such residue of the first model with a single conformer gets a modification
    if !friendly {
        if let Some(m) = pdb.model_mut(0) {
            for ch in m.chains_mut() {
                let nums: Vec<isize> = ch.residues().map(Residue::serial_number).collect();
                for (ri, r) in ch.residues_mut().enumerate() {
                    if ri > 0 && nums[ri - 1] == nums[ri] && r.insertion_code().is_some() && r.conformer_count() == 1 {
                        if let Some(c) = r.conformers_mut().next() {
                            let _ = c.set_modification(("SER".to_string(), "PHOSPHOSERINE".to_string()));
                        }
                    }
                }
            }
        }
    }
    if rng.chance(5, 6) {
        pdb.identifier = Some((*rng.pick(IDS)).to_string());
    }
    for _ in 0..rng.below(3) {
        let n = *rng.pick(&[1usize, 2, 3, 4, 100, 200, 350, 465, 900, 999]);
        let words = ["RESOLUTION.", "1.80", "ANGSTROMS.", "THE", "STRUCTURE", "001", "REFINED"];
        let t: Vec<&str> = (0..1 + rng.below(6)).map(|_| *rng.pick(&words)).collect();
        // remark text may be indented (tables, continuation lines): the indentation is part of the text
        let indent = if rng.chance(1, 3) { " ".repeat(1 + rng.below(4)) } else { String::new() };
        let _ = pdb.add_remark(n, format!("{indent}{}", t.join(" ")));
    }
    // every twentieth structure an edge that the nine columns of CRYST1 cannot hold (no rule of validate_pdb looks at the cell)
    let long_edge = i % 20 == 4;
    if long_edge || rng.chance(2, 3) {
        pdb.unit_cell = Some(UnitCell::new(
            if long_edge { 100_000.0 + rng.below(900_000) as f64 + 0.5 } else { value(rng, 1_000, 99_999_999, 1000.0) },
            value(rng, 1_000, 99_999_999, 1000.0),
            value(rng, 1_000, 999_999, 1000.0),
            value(rng, 100, 17_999, 100.0),
            value(rng, 100, 17_999, 100.0),
            value(rng, 100, 17_999, 100.0),
        ));
        if rng.chance(3, 4) {
            // the Hermann-Mauguin symbols that fit the eleven columns of CRYST1 (the longer ones are the C17 finding)
            loop {
                let s = Symmetry::from_index(1 + rng.below(230));
                if s.as_ref().map_or(false, |s| s.herman_mauguin_symbol().len() <= 11) {
                    pdb.symmetry = s;
                    break;
                }
            }
        }
    }
    let matrix = |rng: &mut Rng| {
        let mut m = [[0.0f64; 4]; 3];
        // now and then a matrix with a particular value: the identity, all zeros, a pure translation
        match rng.below(8) {
            0 => return TransformationMatrix::identity(),
            1 => return TransformationMatrix::from_matrix(m),
            2 => return TransformationMatrix::translation(1.0, -2.5, 0.125),
            _ => {}
        }
        for r in m.iter_mut() {
            for (c, v) in r.iter_mut().enumerate() {
                *v = if c == 3 { value(rng, -99_999_999, 999_999_999, 100_000.0) / 1000.0 } else { value(rng, -99_999_999, 999_999_999, 1_000_000.0) / 100.0 };
            }
        }
        TransformationMatrix::from_matrix(m)
    };
    if rng.chance(1, 2) {
        pdb.scale = Some(matrix(rng));
    }
    if rng.chance(1, 2) {
        pdb.origx = Some(matrix(rng));
    }
    for n in 0..rng.below(3) {
        pdb.add_mtrix(MtriX::new(n * 2 + 1 + rng.below(2), matrix(rng), rng.chance(1, 2)));
    }
    // database references on chains of the first model
    if i % 3 == 1 {
        if let Some(m) = pdb.models_mut().next() {
            for ch in m.chains_mut() {
                if rng.chance(1, 2) {
                    let first = ch.residues().next().map(|r| (r.serial_number(), r.insertion_code().and_then(|c| c.chars().next()).unwrap_or(' ')));
                    let last = ch.residues().next_back().map(|r| (r.serial_number(), r.insertion_code().and_then(|c| c.chars().next()).unwrap_or(' ')));
                    if let (Some(f), Some(l2)) = (first, last) {
                        let long = rng.chance(1, 4);
                        let n_res = ch.residue_count() as isize;
                        let mut d = DatabaseReference::new(
                            ((*rng.pick(&["UNP", "GB", "PDB"])).to_string(), if long { "P123456789".to_string() } else { "P12345".to_string() }, "ABCD_HUMAN".to_string()),
                            SequencePosition::new(f.0, f.1, l2.0, l2.1),
                            {
                                let db_start = 1 + rng.below(50) as isize;
                                SequencePosition::new(db_start, ' ', db_start + n_res - 1, if long { ' ' } else { *rng.pick(&[' ', 'B']) })
                            },
                        );
                        if rng.chance(1, 2) {
                            d.differences.push(SequenceDifference::new(
                                ("MSE".to_string(), f.0, None),
                                if rng.chance(1, 2) { Some(("MET".to_string(), 5)) } else { None },
                                (*rng.pick(&["ENGINEERED MUTATION", "EXPRESSION TAG", ""])).to_string(),
                            ));
                        }
                        ch.set_database_reference(d);
                    }
                }
            }
        }
    }
    pdb
}

/// a structure numbered straight through the limits of the serial-number columns
fn sequential(rng: &mut Rng, first_atom: usize, first_residue: isize, n: usize) -> PDB {
    let mut pdb = PDB::new();
    let mut model = Model::new(1);
    for k in 0..n {
        let a = Atom::new(false, first_atom + k, "", *rng.pick(&["N", "CA", "C", "O"]), (k % 8000) as f64 / 8.0, 1.5, -2.25, 1.0, 20.0, "", 0).expect("atom");
        model.add_atom(a, "A", (first_residue + (k / 2) as isize, None), ("GLY", None));
    }
    pdb.add_model(model);
    pdb
}

fn round_trip(out: &mut Out, pdb: &PDB, wlevel: usize, rlevels: &[usize], label: &str) {
    let orig = file(pdb);
    // the writer itself must not panic on a structure that validation accepts
    let written = crate::guarded(|| write(pdb, wlevel));
    out.case("C03", call("writes", vec![y(label), z(wlevel as i128), z(out.len() as i128)]), y(if written.is_some() { "ok" } else { "panic" }), "prop:writer-total", true);
    let Some(text) = written else {
        out.count(&format!("writer-panic:{}", crate::LAST_PANIC.with(|p| p.borrow().clone())));
        return;
    };
    let n_atoms = pdb.total_atom_count();
    if n_atoms <= 2000 {
        out.case("C03", call("write", vec![z(wlevel as i128), orig.clone()]), Sx::S(text.clone()), "corr:writer-model", n_atoms > 1);
        // an independent fixed-column reading of the file gives the atoms of the structure
        out.case("C03", call("fixedcols", vec![orig.clone(), Sx::S(text.clone())]), y("ok"), "prop:fixed-columns", n_atoms > 1);
    }
    for &level in rlevels {
        let (obs, reread) = read_obs_format(&text, Format::Pdb, 0, level);
        if n_atoms <= 2000 && !text.windows(6).any(|w| w == b"SEQRES") {
            out.case("C03", call("read", vec![z(0), z(level as i128), Sx::S(text.clone())]), obs, "corr:reader-model", n_atoms > 1);
        }
        out.case("C03", call("reread", vec![y(label), z(wlevel as i128), z(level as i128), z(out.len() as i128)]), y(if reread.is_some() { "accepted" } else { "rejected" }), "prop:reread-accepted", true);
        if let Some(p2) = reread {
            out.case("C03", call("roundtrip", vec![z(wlevel as i128), orig.clone(), file(&p2)]), y("ok"), "prop:roundtrip", n_atoms > 1);
            let text2 = write(&p2, wlevel);
            out.case("C03", call("rewrite", vec![y(label), z(wlevel as i128), z(level as i128), z(out.len() as i128)]), y(if text2 == text { "same" } else { "different" }), "prop:rewrite-identical", true);
            if text2 != text && std::env::var("PV_DEBUG").is_ok() {
                eprintln!("REWRITE DIFFERS\n{}\n----\n{}", String::from_utf8_lossy(&text), String::from_utf8_lossy(&text2));
            }
            out.count(&format!("{label}:w{wlevel}:r{level}:accepted"));
        } else {
            out.count(&format!("{label}:w{wlevel}:r{level}:rejected"));
        }
    }
}

pub fn run(seed: u64, count: usize, thorough: bool, out: &mut Out) {
    let mut rng = Rng::new(seed);
    for i in 0..count {
        let pdb = build(&mut rng, i);
        // the property speaks about structures on which the PDB-specific validation reports nothing
        let quiet = validate_pdb(&pdb).is_empty();
        // the converse clause: what the validation reports is what the documented column ranges call for, nothing more
        // (judged by the C18 oracle: one rule per documented range)
        out.case("C18", call("validate_pdb", vec![crate::c18::float_table(), crate::snap::pdb(&pdb, &crate::snap::atom)]), crate::c18::diags(&validate_pdb(&pdb)), "prop:fits-columns-passes", true);
        out.count(if quiet { "validation:silent" } else { "validation:reports" });
        out.count(&format!("models:{}", pdb.model_count()));
        if !quiet {
            continue;
        }
        out.count(if seqres_friendly(&pdb) { "shape:consecutive" } else { "shape:gaps-waters-insertions" });
        for wlevel in [2usize, 1, 0] {
            let rlevels: Vec<usize> = if wlevel == 2 { vec![2, 0] } else { vec![wlevel] };
            // SEQRES records are written at the strict level and whenever a chain has a database reference
            let seqres = wlevel == 0 || pdb.chains().any(|c| c.database_reference().is_some());
            // (a structure with a cell edge that does not fit its columns is labelled: what happens to it is the recorded finding)
            let long_edge = pdb.unit_cell.as_ref().map_or(false, |c| c.a() >= 100_000.0 || c.b() >= 100_000.0 || c.c() >= 100_000.0);
            round_trip(out, &pdb, wlevel, &rlevels, if long_edge { "long-edge" } else if seqres { "seqres" } else { "generated" });
        }
    }
    // structures numbered through the wrap-around of the serial-number columns, loose level
    for (first_atom, first_res, n) in [(99_990usize, 9_990isize, 30usize), (99_999, 9_999, 4), (99_998, 1, 5), (1, 9_998, 8)] {
        let pdb = sequential(&mut rng, first_atom, first_res, n);
        round_trip(out, &pdb, 2, &[2], "wrap");
    }
    // numbered straight through two wrap-arounds of the atom serial numbers (and, thorough, of the residue numbers too)
    if thorough || !cfg!(debug_assertions) {
        let pdb = sequential(&mut rng, 1, 1, 200_010);
        round_trip(out, &pdb, 2, &[2], "wrap-full");
    }
}
