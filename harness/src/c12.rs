//! C12: structured search at the five levels, find and find_mut.
use crate::out::Out;
use crate::rng::Rng;
use crate::snap;
use crate::sx::*;
use pdbtbx::*;

#[derive(Clone)]
struct Q {
    search: Search,
    sx: Sx,
    depth: usize,
}

fn single(t: Term, sx: Sx) -> Q {
    Q { search: Search::Single(t), sx, depth: 0 }
}
fn not(a: Q) -> Q {
    Q { search: !a.search, sx: call("not", vec![a.sx]), depth: a.depth + 1 }
}
fn bin(op: usize, a: Q, b2: Q) -> Q {
    let d = a.depth.max(b2.depth) + 1;
    match op {
        0 => Q { search: a.search & b2.search, sx: call("and", vec![a.sx, b2.sx]), depth: d },
        1 => Q { search: a.search | b2.search, sx: call("or", vec![a.sx, b2.sx]), depth: d },
        _ => Q { search: a.search ^ b2.search, sx: call("xor", vec![a.sx, b2.sx]), depth: d },
    }
}

fn grid(rng: &mut Rng) -> f64 {
    rng.range(0, 16) as f64 / 8.0
}
fn os(o: &Option<&str>) -> Option<String> {
    o.map(|x| x.to_string())
}

fn term(rng: &mut Rng, kind: usize) -> Q {
    let chains = ["A", "B", "AB", "a"];
    let icodes = [None, Some("A"), Some("B")];
    let alts = [None, Some("A"), Some("B")];
    let cnames = ["ALA", "GLY", "HOH", "LIG"];
    let anames = ["CA", "N", "O", "CB", "X1", "ZN"];
    match kind {
        0 => {
            let n = rng.below(4);
            single(Term::ModelSerialNumber(n), call("model", vec![z(n as i128)]))
        }
        1 => {
            let (a, b2) = (rng.below(3), rng.below(4));
            single(Term::ModelSerialNumberRange(a, b2), call("modelr", vec![z(a as i128), z(b2 as i128)]))
        }
        2 => {
            let c = *rng.pick(&chains);
            single(Term::ChainId(c.into()), call("chain", vec![s(c)]))
        }
        3 => {
            let (a, b2) = (*rng.pick(&chains), *rng.pick(&chains));
            single(Term::ChainIdRange(a.into(), b2.into()), call("chainr", vec![s(a), s(b2)]))
        }
        4 => {
            let n = rng.range(-2, 4) as isize;
            single(Term::ResidueSerialNumber(n), call("res", vec![z(n as i128)]))
        }
        5 => {
            let (a, b2) = (rng.range(-2, 3) as isize, rng.range(-1, 4) as isize);
            single(Term::ResidueSerialNumberRange(a, b2), call("resr", vec![z(a as i128), z(b2 as i128)]))
        }
        6 => {
            let ic = rng.pick(&icodes);
            single(Term::ResidueInsertionCode(os(ic)), call("icode", vec![opt(*ic, s)]))
        }
        7 => {
            let n = rng.range(-2, 4) as isize;
            let ic = rng.pick(&icodes);
            single(Term::ResidueId(n, os(ic)), call("resid", vec![z(n as i128), opt(*ic, s)]))
        }
        8 => {
            let c = *rng.pick(&cnames);
            single(Term::ConformerName(c.into()), call("cname", vec![s(c)]))
        }
        9 => {
            let al = rng.pick(&alts);
            single(Term::ConformerAlternativeLocation(os(al)), call("calt", vec![opt(*al, s)]))
        }
        10 => {
            let c = *rng.pick(&cnames);
            let al = rng.pick(&alts);
            single(Term::ConformerId(c.into(), os(al)), call("cid", vec![s(c), opt(*al, s)]))
        }
        11 => {
            let n = rng.below(10);
            single(Term::AtomSerialNumber(n), call("serial", vec![z(n as i128)]))
        }
        12 => {
            let (a, b2) = (rng.below(8), rng.below(10));
            single(Term::AtomSerialNumberRange(a, b2), call("serialr", vec![z(a as i128), z(b2 as i128)]))
        }
        13 => {
            let n = *rng.pick(&anames);
            single(Term::AtomName(n.into()), call("name", vec![s(n)]))
        }
        14 => {
            let e = *rng.pick(&[6usize, 7, 8, 30, 20]);
            single(Term::Element(Element::new(e).expect("element")), call("elem", vec![z(e as i128)]))
        }
        15 => {
            let v = grid(rng);
            single(Term::BFactor(v), call("b", vec![f(v)]))
        }
        16 => {
            let (a, b2) = (grid(rng), grid(rng));
            single(Term::BFactorRange(a, b2), call("br", vec![f(a), f(b2)]))
        }
        17 => {
            let v = grid(rng) / 2.0;
            single(Term::Occupancy(v), call("occ", vec![f(v)]))
        }
        18 => {
            let (a, b2) = (grid(rng) / 2.0, grid(rng) / 2.0);
            single(Term::OccupancyRange(a, b2), call("occr", vec![f(a), f(b2)]))
        }
        19 => single(Term::Backbone, call("backbone", vec![])),
        20 => single(Term::SideChain, call("sidechain", vec![])),
        _ => single(Term::Hetero, call("hetero", vec![])),
    }
}

fn tree(rng: &mut Rng, depth: usize) -> Q {
    if depth == 0 || rng.chance(1, 4) {
        let k = rng.below(22);
        return term(rng, k);
    }
    match rng.below(5) {
        0 => not(tree(rng, depth - 1)),
        k => {
            let a = tree(rng, depth - 1);
            let b2 = tree(rng, depth - 1);
            bin(k % 3, a, b2)
        }
    }
}

fn structure(rng: &mut Rng) -> PDB {
    let mut pdb = PDB::new();
    let unordered = rng.chance(1, 3);
    for mi in 0..(1 + rng.below(2)) {
        let mut model = Model::new(mi + rng.below(2));
        let mut serial = 0;
        for _ in 0..(1 + rng.below(3)) {
            let mut chain = Chain::new(*rng.pick(&["A", "B", "AB", "a"])).expect("chain");
            for _ in 0..rng.below(3) {
                let ic = *rng.pick(&[None, None, Some("A"), Some("B")]);
                let mut residue = Residue::new(rng.range(-2, 4) as isize, ic, None).expect("residue");
                for _ in 0..rng.below(3) {
                    let alt = *rng.pick(&[None, None, Some("A"), Some("B")]);
                    let mut conf = Conformer::new(*rng.pick(&["ALA", "GLY", "HOH", "LIG"]), alt, None).expect("conformer");
                    for _ in 0..rng.below(4) {
                        let name = *rng.pick(&["CA", "N", "O", "CB", "X1", "ZN", "D9"]);
                        // serial numbers need not ascend in the order of the hierarchy (find promises nothing about sorted atoms)
                        let given = if unordered { rng.below(40) } else { serial };
                        let a = Atom::new(rng.chance(1, 4), given, "", name, 0.0, 0.0, 0.0, grid(rng) / 2.0, grid(rng), "", 0).expect("atom");
                        serial += 1;
                        conf.add_atom(a);
                    }
                    residue.add_conformer(conf);
                }
                chain.add_residue(residue);
            }
            model.add_chain(chain);
        }
        pdb.add_model(model);
    }
    pdb
}

fn ids_c(c: &Conformer) -> Sx {
    l(vec![s(c.name()), opt(c.alternative_location(), s)])
}
fn ids_r(r: &Residue) -> Sx {
    l(vec![z(r.serial_number() as i128), opt(r.insertion_code(), s)])
}

/// run find / find_mut at `level` on the element addressed by idx; returns (find, find_mut) observations
fn exec(p: &PDB, level: &str, idx: &[usize; 4], q: &Search) -> (Sx, Sx) {
    let mut pm = p.clone();
    let r = crate::guarded(|| match level {
        "pdb" => {
            let a: Vec<Sx> = p
                .find(q.clone())
                .map(|h| l(vec![snap::atom_short(h.atom()), ids_c(h.conformer()), ids_r(h.residue()), s(h.chain().id()), z(h.model().serial_number() as i128)]))
                .collect();
            let m: Vec<Sx> = pm
                .find_mut(q.clone())
                .map(|h| l(vec![snap::atom_short(h.atom()), ids_c(h.conformer()), ids_r(h.residue()), s(h.chain().id()), z(h.model().serial_number() as i128)]))
                .collect();
            (l(a), l(m))
        }
        "model" => {
            let a: Vec<Sx> = p.model(idx[0]).map_or(vec![], |m| {
                m.find(q.clone()).map(|h| l(vec![snap::atom_short(h.atom()), ids_c(h.conformer()), ids_r(h.residue()), s(h.chain().id())])).collect()
            });
            let m: Vec<Sx> = pm.model_mut(idx[0]).map_or(vec![], |m| {
                m.find_mut(q.clone()).map(|h| l(vec![snap::atom_short(h.atom()), ids_c(h.conformer()), ids_r(h.residue()), s(h.chain().id())])).collect()
            });
            (l(a), l(m))
        }
        "chain" => {
            let a: Vec<Sx> = p.model(idx[0]).and_then(|m| m.chain(idx[1])).map_or(vec![], |c| {
                c.find(q.clone()).map(|h| l(vec![snap::atom_short(h.atom()), ids_c(h.conformer()), ids_r(h.residue())])).collect()
            });
            let m: Vec<Sx> = pm.model_mut(idx[0]).and_then(|m| m.chain_mut(idx[1])).map_or(vec![], |c| {
                c.find_mut(q.clone()).map(|h| l(vec![snap::atom_short(h.atom()), ids_c(h.conformer()), ids_r(h.residue())])).collect()
            });
            (l(a), l(m))
        }
        "residue" => {
            let a: Vec<Sx> = p.model(idx[0]).and_then(|m| m.chain(idx[1])).and_then(|c| c.residue(idx[2])).map_or(vec![], |r| {
                r.find(q.clone()).map(|h| l(vec![snap::atom_short(h.atom()), ids_c(h.conformer())])).collect()
            });
            let m: Vec<Sx> = pm.model_mut(idx[0]).and_then(|m| m.chain_mut(idx[1])).and_then(|c| c.residue_mut(idx[2])).map_or(vec![], |r| {
                r.find_mut(q.clone()).map(|h| l(vec![snap::atom_short(h.atom()), ids_c(h.conformer())])).collect()
            });
            (l(a), l(m))
        }
        _ => {
            let a: Vec<Sx> = p
                .model(idx[0])
                .and_then(|m| m.chain(idx[1]))
                .and_then(|c| c.residue(idx[2]))
                .and_then(|r| r.conformer(idx[3]))
                .map_or(vec![], |c| c.find(q.clone()).map(|a| l(vec![snap::atom_short(a)])).collect());
            let m: Vec<Sx> = pm
                .model_mut(idx[0])
                .and_then(|m| m.chain_mut(idx[1]))
                .and_then(|c| c.residue_mut(idx[2]))
                .and_then(|r| r.conformer_mut(idx[3]))
                .map_or(vec![], |c| c.find_mut(q.clone()).map(|a| l(vec![snap::atom_short(a)])).collect());
            (l(a), l(m))
        }
    });
    r.unwrap_or((y("panic"), y("panic")))
}

fn emit(out: &mut Out, p: &PDB, psx: &Sx, level: &str, idx: &[usize; 4], q: &Q, label: &str) {
    let (a, m) = exec(p, level, idx, &q.search);
    let args = vec![y(level), l(idx.iter().map(|i| z(*i as i128)).collect()), psx.clone(), q.sx.clone()];
    let nonempty = a != l(vec![]);
    out.case("C12", call("spec", args.clone()), a.clone(), "prop:find", nonempty);
    out.case("C12", call("spec", args.clone()), m, "prop:find_mut", nonempty);
    out.case("C12", call("find", args), a, "corr:find", nonempty);
    out.count(&format!("{label}:{level}:depth{}", q.depth.min(8)));
    out.count(if nonempty { "result-nonempty" } else { "result-empty" });
}

pub fn run(seed: u64, count: usize, thorough: bool, out: &mut Out) {
    let mut rng = Rng::new(seed);
    let levels = ["pdb", "model", "chain", "residue", "conformer"];
    // exhaustive: all trees of depth <= 2 over a 10-term alphabet, on one fixed structure, at every level
    {
        let mut r2 = Rng::new(12345);
        let p = loop {
            let p = structure(&mut r2);
            if p.total_atom_count() >= 8 && p.model(0).and_then(|m| m.chain(0)).and_then(|c| c.residue(0)).and_then(|r| r.conformer(0)).map_or(0, |c| c.atom_count()) >= 2 {
                break p;
            }
        };
        let psx = snap::pdb(&p, &snap::atom);
        let kinds = [0usize, 2, 5, 6, 9, 12, 14, 19, 20, 21];
        let alphabet: Vec<Q> = kinds.iter().map(|k| term(&mut r2, *k)).collect();
        let mut d1: Vec<Q> = alphabet.clone();
        d1.extend(alphabet.iter().cloned().map(not));
        let mut all: Vec<Q> = d1.clone();
        if thorough {
            for op in 0..3 {
                for a in &d1 {
                    for b2 in &d1 {
                        all.push(bin(op, a.clone(), b2.clone()));
                    }
                }
            }
        } else {
            for op in 0..3 {
                for a in &d1 {
                    for b2 in &alphabet {
                        all.push(bin(op, a.clone(), b2.clone()));
                    }
                }
            }
        }
        let n = all.len();
        for i in 0..n {
            all.push(not(all[i].clone()));
        }
        for q in &all {
            for level in levels {
                if !thorough && level != "pdb" && level != "residue" {
                    continue;
                }
                emit(out, &p, &psx, level, &[0, 0, 0, 0], q, "exhaustive");
            }
        }
    }
    // every kind of term on its own and negated, several parameter draws each, on a series of structures (a term that is
    // wrong for one parameter value only - an absent insertion code, an empty range - is met whatever the random trees hold)
    for _ in 0..(if thorough { 60 } else { 20 }) {
        let p = structure(&mut rng);
        let psx = snap::pdb(&p, &snap::atom);
        for k in 0..22usize {
            for _ in 0..3 {
                let q = term(&mut rng, k);
                emit(out, &p, &psx, "pdb", &[0, 0, 0, 0], &q, "single-term");
                emit(out, &p, &psx, "pdb", &[0, 0, 0, 0], &not(q), "single-term-negated");
            }
        }
    }
    // random structures x random trees up to depth 7
    for _ in 0..count {
        let p = structure(&mut rng);
        let psx = snap::pdb(&p, &snap::atom);
        for _ in 0..4 {
            let d = 1 + rng.below(7);
            let q = tree(&mut rng, d);
            let level = *rng.pick(&levels);
            let idx = [rng.below(2), rng.below(2), rng.below(2), rng.below(2)];
            emit(out, &p, &psx, level, &idx, &q, "random");
        }
    }
}
