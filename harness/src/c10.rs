//! C10: histories of editing operations; returned value and full snapshot after every step.
use crate::gen;
use crate::out::Out;
use crate::rng::Rng;
use crate::snap;
use crate::sx::*;
use pdbtbx::*;

fn atom_pred(k: usize) -> impl Fn(&Atom) -> bool {
    move |a: &Atom| match k {
        0 => a.serial_number() % 2 == 0,
        1 => a.name() == "CA",
        2 => a.hetero(),
        3 => a.serial_number() > 5,
        4 => true,
        _ => false,
    }
}
fn conf_pred(k: usize) -> impl Fn(&Conformer) -> bool {
    move |c: &Conformer| match k {
        0 => c.atom_count() == 0,
        1 => c.name() == "ALA",
        2 => c.alternative_location().is_some(),
        3 => true,
        _ => false,
    }
}
fn res_pred(k: usize) -> impl Fn(&Residue) -> bool {
    move |r: &Residue| match k {
        0 => r.conformer_count() == 0,
        1 => r.serial_number() < 2,
        2 => r.insertion_code().is_some(),
        3 => true,
        _ => false,
    }
}
fn chain_pred(k: usize) -> impl Fn(&Chain) -> bool {
    move |c: &Chain| match k {
        0 => c.residue_count() == 0,
        1 => c.id() == "A",
        2 => true,
        _ => false,
    }
}
fn model_pred(k: usize) -> impl Fn(&Model) -> bool {
    move |m: &Model| match k {
        0 => m.chain_count() == 0,
        1 => m.serial_number() % 2 == 1,
        2 => true,
        _ => false,
    }
}

fn full_atom(rng: &mut Rng) -> Atom {
    let name = *rng.pick(&["CA", "N", "C", "O", "CB", "H", "ZN", "X1"]);
    let g = |r: &mut Rng| r.range(-40, 40) as f64 / 8.0;
    Atom::new(rng.chance(1, 5), rng.below(12), "", name, g(rng), g(rng), g(rng), rng.below(9) as f64 / 8.0, rng.below(80) as f64 / 8.0, "", rng.range(-1, 1) as isize)
        .expect("atom")
}
fn cnt(rng: &mut Rng) -> usize {
    if rng.chance(1, 7) {
        0
    } else if rng.chance(1, 6) {
        // now and then many children: names and numbers repeat inside one container
        3 + rng.below(3)
    } else {
        1 + rng.below(2)
    }
}
fn rand_conformer(rng: &mut Rng) -> Conformer {
    let alt = *rng.pick(&[None, None, Some("A"), Some("B")]);
    let mut c = Conformer::new(*rng.pick(&["ALA", "GLY", "HOH"]), alt, None).expect("conformer");
    for _ in 0..cnt(rng) {
        c.add_atom(full_atom(rng));
    }
    // a conformer that is moved in may carry metadata of its own (which the receiver does not take over)
    if rng.chance(1, 3) {
        let _ = c.set_modification((rng.pick(&["SER", "MET"]).to_string(), rng.pick(&["PHOSPHOSERINE", "SELENOMETHIONINE"]).to_string()));
    }
    c
}
fn rand_residue(rng: &mut Rng) -> Residue {
    let ic = *rng.pick(&[None, None, Some("A")]);
    let mut r = Residue::new(rng.range(-1, 4) as isize, ic, None).expect("residue");
    for _ in 0..cnt(rng) {
        r.add_conformer(rand_conformer(rng));
    }
    r
}
fn rand_chain(rng: &mut Rng) -> Chain {
    let mut c = Chain::new(*rng.pick(&["A", "B", "C"])).expect("chain");
    for _ in 0..cnt(rng) {
        c.add_residue(rand_residue(rng));
    }
    c
}
fn rand_model(rng: &mut Rng) -> Model {
    let mut m = Model::new(rng.below(4));
    for _ in 0..cnt(rng) {
        m.add_chain(rand_chain(rng));
    }
    m
}
fn rand_pdb(rng: &mut Rng, max_models: usize) -> PDB {
    let mut p = PDB::new();
    let n = if rng.chance(1, 8) { 0 } else { 1 + rng.below(max_models) };
    for _ in 0..n {
        p.add_model(rand_model(rng));
    }
    p
}

fn path_sx(path: &[usize]) -> Sx {
    l(path.iter().map(|i| z(*i as i128)).collect())
}
fn unit() -> Sx {
    y("u")
}
fn nopath() -> Sx {
    y("nopath")
}

fn get_model<'a>(p: &'a mut PDB, path: &[usize]) -> Option<&'a mut Model> {
    p.model_mut(path[0])
}
fn get_chain<'a>(p: &'a mut PDB, path: &[usize]) -> Option<&'a mut Chain> {
    p.model_mut(path[0]).and_then(|m| m.chain_mut(path[1]))
}
fn get_residue<'a>(p: &'a mut PDB, path: &[usize]) -> Option<&'a mut Residue> {
    get_chain(p, path).and_then(|c| c.residue_mut(path[2]))
}
fn get_conformer<'a>(p: &'a mut PDB, path: &[usize]) -> Option<&'a mut Conformer> {
    get_residue(p, path).and_then(|r| r.conformer_mut(path[3]))
}
fn get_atom<'a>(p: &'a mut PDB, path: &[usize]) -> Option<&'a mut Atom> {
    get_conformer(p, path).and_then(|c| c.atom_mut(path[4]))
}

/// One random operation: applies it to `p`, returns (op as sexp, returned value as sexp).
fn random_op(rng: &mut Rng, p: &mut PDB) -> (Sx, Sx) {
    // a path that mostly exists
    let mut path = [0usize; 5];
    path[0] = rng.index_near(p.model_count(), 10);
    let nc = p.model(path[0]).map_or(0, |m| m.chain_count());
    path[1] = rng.index_near(nc, 10);
    let nr = p.model(path[0]).and_then(|m| m.chain(path[1])).map_or(0, |c| c.residue_count());
    path[2] = rng.index_near(nr, 10);
    let ncf = p.model(path[0]).and_then(|m| m.chain(path[1])).and_then(|c| c.residue(path[2])).map_or(0, |r| r.conformer_count());
    path[3] = rng.index_near(ncf, 10);
    let na = p
        .model(path[0])
        .and_then(|m| m.chain(path[1]))
        .and_then(|c| c.residue(path[2]))
        .and_then(|r| r.conformer(path[3]))
        .map_or(0, |c| c.atom_count());
    path[4] = rng.index_near(na, 10);
    let par = rng.chance(1, 2);
    let full = &snap::atom;
    // removals by identifier twice as often as the other kinds
    let kind = match rng.below(18) {
        16 | 17 => 6,
        k => k,
    };
    macro_rules! on {
        ($getter:ident, $n:expr, |$x:ident| $body:expr) => {
            match $getter(p, &path) {
                Some($x) => $body,
                None => nopath(),
            }
        };
    }
    match kind {
        0 => {
            // remove atoms by predicate at a random level
            let k = rng.below(6);
            let level = *rng.pick(&["pdb", "model", "chain", "residue", "conformer"]);
            let n = ["pdb", "model", "chain", "residue", "conformer"].iter().position(|x| *x == level).unwrap_or(0);
            let ret = match level {
                "pdb" => {
                    p.remove_atoms_by(atom_pred(k));
                    unit()
                }
                "model" => on!(get_model, 1, |m| {
                    m.remove_atoms_by(atom_pred(k));
                    unit()
                }),
                "chain" => on!(get_chain, 2, |c| {
                    c.remove_atoms_by(atom_pred(k));
                    unit()
                }),
                "residue" => on!(get_residue, 3, |r| {
                    r.remove_atoms_by(atom_pred(k));
                    unit()
                }),
                _ => on!(get_conformer, 4, |c| {
                    c.remove_atoms_by(atom_pred(k));
                    unit()
                }),
            };
            (call("rm_atoms_by", vec![y(level), path_sx(&path[..n]), z(k as i128)]), ret)
        }
        1 => {
            let k = rng.below(5);
            let level = *rng.pick(&["pdb", "model", "chain", "residue"]);
            let n = ["pdb", "model", "chain", "residue"].iter().position(|x| *x == level).unwrap_or(0);
            let ret = match level {
                "pdb" => {
                    p.remove_conformers_by(conf_pred(k));
                    unit()
                }
                "model" => on!(get_model, 1, |m| {
                    m.remove_conformers_by(conf_pred(k));
                    unit()
                }),
                "chain" => on!(get_chain, 2, |c| {
                    c.remove_conformers_by(conf_pred(k));
                    unit()
                }),
                _ => on!(get_residue, 3, |r| {
                    r.remove_conformers_by(conf_pred(k));
                    unit()
                }),
            };
            (call("rm_confs_by", vec![y(level), path_sx(&path[..n]), z(k as i128)]), ret)
        }
        2 => {
            let k = rng.below(5);
            let level = *rng.pick(&["pdb", "model", "chain"]);
            let n = ["pdb", "model", "chain"].iter().position(|x| *x == level).unwrap_or(0);
            let ret = match level {
                "pdb" => {
                    p.remove_residues_by(res_pred(k));
                    unit()
                }
                "model" => on!(get_model, 1, |m| {
                    m.remove_residues_by(res_pred(k));
                    unit()
                }),
                _ => on!(get_chain, 2, |c| {
                    c.remove_residues_by(res_pred(k));
                    unit()
                }),
            };
            (call("rm_res_by", vec![y(level), path_sx(&path[..n]), z(k as i128)]), ret)
        }
        3 => {
            let k = rng.below(4);
            if rng.chance(1, 2) {
                p.remove_chains_by(chain_pred(k));
                (call("rm_chains_by", vec![y("pdb"), path_sx(&[]), z(k as i128)]), unit())
            } else {
                let ret = on!(get_model, 1, |m| {
                    m.remove_chains_by(chain_pred(k));
                    unit()
                });
                (call("rm_chains_by", vec![y("model"), path_sx(&path[..1]), z(k as i128)]), ret)
            }
        }
        4 => {
            let k = rng.below(4);
            p.remove_models_by(model_pred(k));
            (call("rm_models_by", vec![z(k as i128)]), unit())
        }
        5 => {
            // removal by index (may be out of range: documented panic, state unchanged)
            let level = rng.below(5);
            let i = path[level] + if rng.chance(1, 6) { 3 } else { 0 };
            let pp: &mut PDB = p;
            let ret = match level {
                0 => crate::guarded(|| {
                    pp.remove_model(i);
                    unit()
                })
                .unwrap_or(y("panic")),
                1 => match get_model(pp, &path) {
                    Some(m) => crate::guarded(|| {
                        m.remove_chain(i);
                        unit()
                    })
                    .unwrap_or(y("panic")),
                    None => nopath(),
                },
                2 => match get_chain(pp, &path) {
                    Some(c) => crate::guarded(|| {
                        c.remove_residue(i);
                        unit()
                    })
                    .unwrap_or(y("panic")),
                    None => nopath(),
                },
                3 => match get_residue(pp, &path) {
                    Some(r) => crate::guarded(|| {
                        r.remove_conformer(i);
                        unit()
                    })
                    .unwrap_or(y("panic")),
                    None => nopath(),
                },
                _ => match get_conformer(pp, &path) {
                    Some(c) => crate::guarded(|| {
                        c.remove_atom(i);
                        unit()
                    })
                    .unwrap_or(y("panic")),
                    None => nopath(),
                },
            };
            let name = ["rm_model", "rm_chain", "rm_res", "rm_conf", "rm_atom"][level];
            if level == 0 {
                (call(name, vec![z(i as i128)]), ret)
            } else {
                (call(name, vec![path_sx(&path[..level]), z(i as i128)]), ret)
            }
        }
        6 => {
            // removal of the first match by identifier
            match rng.below(6) {
                0 => {
                    let n = rng.below(4);
                    let r = if par { p.par_remove_model_serial_number(n) } else { p.remove_model_serial_number(n) };
                    (call("rm_model_serial", vec![z(n as i128), b(par)]), b(r))
                }
                1 => {
                    // mostly the id of an existing chain, or that id in the other case
                    let existing = p.model(path[0]).and_then(|m| m.chain(path[1])).map(|c| c.id().to_string());
                    let chosen: String = match existing {
                        Some(e) if rng.chance(3, 4) => {
                            if rng.chance(1, 3) {
                                if e.chars().any(|c| c.is_ascii_lowercase()) { e.to_ascii_uppercase() } else { e.to_ascii_lowercase() }
                            } else {
                                e
                            }
                        }
                        _ => (*rng.pick(&["A", "B", "C", "Q"])).to_string(),
                    };
                    let id = chosen.as_str();
                    let ret = on!(get_model, 1, |m| b(if par { m.par_remove_chain_by_id(id) } else { m.remove_chain_by_id(id) }));
                    (call("rm_chain_id", vec![path_sx(&path[..1]), s(id), b(par)]), ret)
                }
                2 => {
                    // mostly aimed at an existing residue: its exact identifier, its number alone, or its number with another code
                    let existing = p
                        .model(path[0])
                        .and_then(|m| m.chain(path[1]))
                        .and_then(|c| c.residue(path[2]))
                        .map(|r| (r.serial_number(), r.insertion_code().map(|x| x.to_string())));
                    let (n, ic_owned): (isize, Option<String>) = match existing {
                        Some((rn, ric)) if rng.chance(7, 8) => match (ric.is_some(), rng.below(4)) {
                            (true, 0) | (false, 0) | (false, 1) => (rn, ric),
                            (true, 1) | (true, 2) => (rn, None),
                            _ => (rn, Some(if ric.as_deref() == Some("A") { "B" } else { "A" }.to_string())),
                        },
                        _ => (rng.range(-1, 4) as isize, (*rng.pick(&[None, None, Some("A")])).map(|x: &str| x.to_string())),
                    };
                    let ic = ic_owned.as_deref();
                    let ret = on!(get_chain, 2, |c| b(if par { c.par_remove_residue_by_id((n, ic)) } else { c.remove_residue_by_id((n, ic)) }));
                    (call("rm_res_id", vec![path_sx(&path[..2]), z(n as i128), opt(ic, s), b(par)]), ret)
                }
                3 => {
                    // mostly aimed at an existing conformer: its exact identifier, its name alone, or its name with another location
                    let existing = p
                        .model(path[0])
                        .and_then(|m| m.chain(path[1]))
                        .and_then(|c| c.residue(path[2]))
                        .and_then(|r| r.conformer(path[3]))
                        .map(|c| (c.name().to_string(), c.alternative_location().map(|x| x.to_string())));
                    let (nm_owned, alt_owned): (String, Option<String>) = match existing {
                        Some((cn, ca)) if rng.chance(7, 8) => match (ca.is_some(), rng.below(4)) {
                            (true, 0) | (false, 0) | (false, 1) => (cn, ca),
                            (true, 1) | (true, 2) => (cn, None),
                            _ => (cn, Some(if ca.as_deref() == Some("A") { "B" } else { "A" }.to_string())),
                        },
                        _ => ((*rng.pick(&["ALA", "GLY", "HOH"])).to_string(), (*rng.pick(&[None, None, Some("A"), Some("B")])).map(|x: &str| x.to_string())),
                    };
                    let nm = nm_owned.as_str();
                    let alt = alt_owned.as_deref();
                    let ret = on!(get_residue, 3, |r| b(if par { r.par_remove_conformer_by_id((nm, alt)) } else { r.remove_conformer_by_id((nm, alt)) }));
                    (call("rm_conf_id", vec![path_sx(&path[..3]), s(nm), opt(alt, s), b(par)]), ret)
                }
                4 => {
                    // mostly the serial number of an atom of the conformer (they repeat: the first one has to go)
                    let existing: Vec<usize> = p
                        .model(path[0])
                        .and_then(|m| m.chain(path[1]))
                        .and_then(|c| c.residue(path[2]))
                        .and_then(|r| r.conformer(path[3]))
                        .map(|c| c.atoms().map(Atom::serial_number).collect())
                        .unwrap_or_default();
                    let n = if !existing.is_empty() && rng.chance(3, 4) { *rng.pick(&existing) } else { rng.below(12) };
                    let ret = on!(get_conformer, 4, |c| b(if par { c.par_remove_atom_by_serial_number(n) } else { c.remove_atom_by_serial_number(n) }));
                    (call("rm_atom_serial", vec![path_sx(&path[..4]), z(n as i128), b(par)]), ret)
                }
                _ => {
                    // mostly the name of an atom of the conformer (names repeat: the first one has to go)
                    let existing: Vec<String> = p
                        .model(path[0])
                        .and_then(|m| m.chain(path[1]))
                        .and_then(|c| c.residue(path[2]))
                        .and_then(|r| r.conformer(path[3]))
                        .map(|c| c.atoms().map(|a| a.name().to_string()).collect())
                        .unwrap_or_default();
                    let owned: String = if !existing.is_empty() && rng.chance(3, 4) { rng.pick(&existing).clone() } else { (*rng.pick(&["CA", "N", "O", "ZN"])).to_string() };
                    let nm = owned.as_str();
                    let ret = on!(get_conformer, 4, |c| b(if par { c.par_remove_atom_by_name(nm) } else { c.remove_atom_by_name(nm) }));
                    (call("rm_atom_name", vec![path_sx(&path[..4]), s(nm), b(par)]), ret)
                }
            }
        }
        7 => {
            let level = *rng.pick(&["pdb", "model", "chain", "residue"]);
            let n = ["pdb", "model", "chain", "residue"].iter().position(|x| *x == level).unwrap_or(0);
            let ret = match level {
                "pdb" => {
                    if par {
                        p.par_remove_empty()
                    } else {
                        p.remove_empty()
                    };
                    unit()
                }
                "model" => on!(get_model, 1, |m| {
                    if par {
                        m.par_remove_empty()
                    } else {
                        m.remove_empty()
                    };
                    unit()
                }),
                "chain" => on!(get_chain, 2, |c| {
                    c.remove_empty();
                    unit()
                }),
                _ => on!(get_residue, 3, |r| {
                    r.remove_empty();
                    unit()
                }),
            };
            (call("rm_empty", vec![y(level), path_sx(&path[..n]), b(par)]), ret)
        }
        8 => {
            if rng.chance(1, 4) {
                let r = p.remove_all_models_except_first();
                (call("rm_all_but_first", vec![]), opt(r, |n| z(n as i128)))
            } else {
                let n = rng.below(4);
                let idxs: Vec<usize> = (0..n).map(|_| rng.index_near(p.model_count() + 1, 5)).collect();
                let r = p.remove_models_except(&idxs);
                (call("rm_models_except", vec![l(idxs.iter().map(|i| z(*i as i128)).collect())]), opt(r, |n| z(n as i128)))
            }
        }
        9 => {
            // join
            match rng.below(5) {
                0 => {
                    let o = rand_pdb(rng, 2);
                    let osx = snap::pdb(&o, full);
                    p.join(o);
                    (call("join", vec![y("pdb"), path_sx(&[]), osx]), unit())
                }
                1 => {
                    let o = rand_model(rng);
                    let osx = snap::model(&o, full);
                    let ret = on!(get_model, 1, |m| {
                        m.join(o);
                        unit()
                    });
                    (call("join", vec![y("model"), path_sx(&path[..1]), osx]), ret)
                }
                2 => {
                    let o = rand_chain(rng);
                    let osx = snap::chain(&o, full);
                    let ret = on!(get_chain, 2, |c| {
                        c.join(o);
                        unit()
                    });
                    (call("join", vec![y("chain"), path_sx(&path[..2]), osx]), ret)
                }
                3 => {
                    let o = rand_residue(rng);
                    let osx = snap::residue(&o, full);
                    let ret = on!(get_residue, 3, |r| {
                        r.join(o);
                        unit()
                    });
                    (call("join", vec![y("residue"), path_sx(&path[..3]), osx]), ret)
                }
                _ => {
                    let o = rand_conformer(rng);
                    let osx = snap::conformer(&o, full);
                    let ret = on!(get_conformer, 4, |c| {
                        c.join(o);
                        unit()
                    });
                    (call("join", vec![y("conformer"), path_sx(&path[..4]), osx]), ret)
                }
            }
        }
        10 => {
            // extend
            match rng.below(5) {
                0 => {
                    let os: Vec<Model> = (0..rng.below(3)).map(|_| rand_model(rng)).collect();
                    let osx = l(os.iter().map(|o| snap::model(o, full)).collect());
                    p.extend(os);
                    (call("extend", vec![y("pdb"), path_sx(&[]), osx]), unit())
                }
                1 => {
                    let os: Vec<Chain> = (0..rng.below(3)).map(|_| rand_chain(rng)).collect();
                    let osx = l(os.iter().map(|o| snap::chain(o, full)).collect());
                    let ret = on!(get_model, 1, |m| {
                        m.extend(os);
                        unit()
                    });
                    (call("extend", vec![y("model"), path_sx(&path[..1]), osx]), ret)
                }
                2 => {
                    let os: Vec<Residue> = (0..rng.below(3)).map(|_| rand_residue(rng)).collect();
                    let osx = l(os.iter().map(|o| snap::residue(o, full)).collect());
                    let ret = on!(get_chain, 2, |c| {
                        c.extend(os);
                        unit()
                    });
                    (call("extend", vec![y("chain"), path_sx(&path[..2]), osx]), ret)
                }
                3 => {
                    let os: Vec<Conformer> = (0..rng.below(3)).map(|_| rand_conformer(rng)).collect();
                    let osx = l(os.iter().map(|o| snap::conformer(o, full)).collect());
                    let ret = on!(get_residue, 3, |r| {
                        r.extend(os);
                        unit()
                    });
                    (call("extend", vec![y("residue"), path_sx(&path[..3]), osx]), ret)
                }
                _ => {
                    let os: Vec<Atom> = (0..rng.below(3)).map(|_| full_atom(rng)).collect();
                    let osx = l(os.iter().map(|o| snap::atom(o)).collect());
                    let ret = on!(get_conformer, 4, |c| {
                        c.extend(os);
                        unit()
                    });
                    (call("extend", vec![y("conformer"), path_sx(&path[..4]), osx]), ret)
                }
            }
        }
        11 => {
            // add / insert
            match rng.below(6) {
                0 => {
                    let o = rand_model(rng);
                    let osx = snap::model(&o, full);
                    p.add_model(o);
                    (call("add_model", vec![osx]), unit())
                }
                1 => {
                    let o = rand_chain(rng);
                    let osx = snap::chain(&o, full);
                    let ret = on!(get_model, 1, |m| {
                        m.add_chain(o);
                        unit()
                    });
                    (call("add_chain", vec![path_sx(&path[..1]), osx]), ret)
                }
                2 => {
                    let o = rand_residue(rng);
                    let osx = snap::residue(&o, full);
                    let ret = on!(get_chain, 2, |c| {
                        c.add_residue(o);
                        unit()
                    });
                    (call("add_res", vec![path_sx(&path[..2]), osx]), ret)
                }
                3 => {
                    let o = rand_residue(rng);
                    let osx = snap::residue(&o, full);
                    let i = path[2] + if rng.chance(1, 5) { 3 } else { 0 };
                    let ret = match get_chain(p, &path) {
                        Some(c) => crate::guarded(|| {
                            c.insert_residue(i, o);
                            unit()
                        })
                        .unwrap_or(y("panic")),
                        None => nopath(),
                    };
                    (call("insert_res", vec![path_sx(&path[..2]), z(i as i128), osx]), ret)
                }
                4 => {
                    let o = rand_conformer(rng);
                    let osx = snap::conformer(&o, full);
                    let ret = on!(get_residue, 3, |r| {
                        r.add_conformer(o);
                        unit()
                    });
                    (call("add_conf", vec![path_sx(&path[..3]), osx]), ret)
                }
                _ => {
                    let o = full_atom(rng);
                    let osx = snap::atom(&o);
                    let ret = on!(get_conformer, 4, |c| {
                        c.add_atom(o);
                        unit()
                    });
                    (call("add_atom", vec![path_sx(&path[..4]), osx]), ret)
                }
            }
        }
        12 | 13 => {
            // atom setters, valid and invalid values
            let texts = ["CA", " cb ", "", " ", "N\u{1}", "o1", "X\u{7f}"];
            let floats = [0.5, -0.5, 0.0, -0.0, 12.125, f64::NAN, f64::INFINITY, f64::NEG_INFINITY, 1e300];
            let field = *rng.pick(&["hetero", "serial", "id", "name", "x", "y", "z", "occ", "b", "charge", "element", "pos", "pos", "atf"]);
            let (v, ret): (Sx, Sx) = match field {
                "hetero" => {
                    let v = rng.chance(1, 2);
                    (b(v), on!(get_atom, 5, |a| {
                        a.set_hetero(v);
                        b(true)
                    }))
                }
                "serial" => {
                    let v = rng.below(20);
                    (z(v as i128), on!(get_atom, 5, |a| {
                        a.set_serial_number(v);
                        b(true)
                    }))
                }
                "id" => {
                    let t = *rng.pick(&texts);
                    (s(t), on!(get_atom, 5, |a| b(a.set_id(t).is_ok())))
                }
                "name" => {
                    let t = *rng.pick(&texts);
                    (s(t), on!(get_atom, 5, |a| b(a.set_name(t).is_ok())))
                }
                "x" => {
                    let v = *rng.pick(&floats);
                    (f(v), on!(get_atom, 5, |a| b(a.set_x(v).is_ok())))
                }
                "y" => {
                    let v = *rng.pick(&floats);
                    (f(v), on!(get_atom, 5, |a| b(a.set_y(v).is_ok())))
                }
                "z" => {
                    let v = *rng.pick(&floats);
                    (f(v), on!(get_atom, 5, |a| b(a.set_z(v).is_ok())))
                }
                "occ" => {
                    let v = *rng.pick(&floats);
                    (f(v), on!(get_atom, 5, |a| b(a.set_occupancy(v).is_ok())))
                }
                "b" => {
                    let v = *rng.pick(&floats);
                    (f(v), on!(get_atom, 5, |a| b(a.set_b_factor(v).is_ok())))
                }
                "pos" => {
                    let v = (*rng.pick(&floats), *rng.pick(&floats), *rng.pick(&floats));
                    (l(vec![f(v.0), f(v.1), f(v.2)]), on!(get_atom, 5, |a| b(a.set_pos(v).is_ok())))
                }
                "atf" => {
                    let mut t = [[0.0f64; 3]; 3];
                    for r in t.iter_mut() {
                        for v in r.iter_mut() {
                            *v = rng.range(-40, 40) as f64 / 8.0;
                        }
                    }
                    (l(t.iter().flat_map(|r| r.iter().map(|v| f(*v))).collect()), on!(get_atom, 5, |a| {
                        a.set_anisotropic_temperature_factors(t);
                        b(true)
                    }))
                }
                "charge" => {
                    let v = rng.range(-3, 3) as isize;
                    (z(v as i128), on!(get_atom, 5, |a| {
                        a.set_charge(v);
                        b(true)
                    }))
                }
                _ => {
                    let e = *rng.pick(&[1usize, 6, 7, 8, 30]);
                    (z(e as i128), on!(get_atom, 5, |a| {
                        a.set_element(Element::new(e).expect("element"));
                        b(true)
                    }))
                }
            };
            (call("set", vec![y("atom"), path_sx(&path[..5]), y(field), v]), ret)
        }
        _ => {
            // setters of the containers
            let texts = ["ala", " B ", "", " ", "X\u{1}", "gly"];
            match rng.below(9) {
                0 => {
                    let t = *rng.pick(&texts);
                    (call("set", vec![y("conformer"), path_sx(&path[..4]), y("name"), s(t)]), on!(get_conformer, 4, |c| b(c.set_name(t))))
                }
                1 => {
                    let t = *rng.pick(&texts);
                    (
                        call("set", vec![y("conformer"), path_sx(&path[..4]), y("alt"), s(t)]),
                        on!(get_conformer, 4, |c| b(c.set_alternative_location(t))),
                    )
                }
                2 => (
                    call("set", vec![y("conformer"), path_sx(&path[..4]), y("noalt"), y("-")]),
                    on!(get_conformer, 4, |c| {
                        c.remove_alternative_location();
                        b(true)
                    }),
                ),
                3 => {
                    let a = *rng.pick(&texts);
                    let c2 = *rng.pick(&["comment", "bad\u{2}comment", ""]);
                    (
                        call("set", vec![y("conformer"), path_sx(&path[..4]), y("mod"), l(vec![s(a), s(c2)])]),
                        on!(get_conformer, 4, |c| b(c.set_modification((a.to_string(), c2.to_string())).is_ok())),
                    )
                }
                4 => {
                    let n = rng.range(-3, 9) as isize;
                    (
                        call("set", vec![y("residue"), path_sx(&path[..3]), y("num"), z(n as i128)]),
                        on!(get_residue, 3, |r| {
                            r.set_serial_number(n);
                            b(true)
                        }),
                    )
                }
                5 => {
                    let t = *rng.pick(&texts);
                    (call("set", vec![y("residue"), path_sx(&path[..3]), y("icode"), s(t)]), on!(get_residue, 3, |r| b(r.set_insertion_code(t))))
                }
                6 => (
                    call("set", vec![y("residue"), path_sx(&path[..3]), y("noicode"), y("-")]),
                    on!(get_residue, 3, |r| {
                        r.remove_insertion_code();
                        b(true)
                    }),
                ),
                7 => {
                    let t = *rng.pick(&texts);
                    (call("set", vec![y("chain"), path_sx(&path[..2]), y("id"), s(t)]), on!(get_chain, 2, |c| b(c.set_id(t))))
                }
                _ => {
                    let n = rng.below(6);
                    (
                        call("set", vec![y("model"), path_sx(&path[..1]), y("serial"), z(n as i128)]),
                        on!(get_model, 1, |m| {
                            m.set_serial_number(n);
                            b(true)
                        }),
                    )
                }
            }
        }
    }
}

pub fn run(seed: u64, count: usize, thorough: bool, out: &mut Out) {
    let mut rng = Rng::new(seed);
    let _ = gen::Shape::default();
    for i in 0..count {
        let mut p = rand_pdb(&mut rng, 3);
        let start = snap::pdb(&p, &snap::atom);
        let len = if i % 10 == 0 { 1 + rng.below(if thorough { 60 } else { 30 }) } else { 1 + rng.below(5) };
        let mut ops = Vec::new();
        let mut obs = Vec::new();
        for _ in 0..len {
            let (op, ret) = random_op(&mut rng, &mut p);
            if let Sx::L(v) = &op {
                if let Some(Sx::Y(name)) = v.first() {
                    out.count(&format!("op:{name}"));
                }
            }
            if let Sx::Y(r) = &ret {
                out.count(&format!("ret:{r}"));
            }
            ops.push(op);
            obs.push(l(vec![ret, snap::pdb(&p, &snap::atom)]));
        }
        out.case("C10", call("hist", vec![start, l(ops)]), l(obs), "prop:history", true);
    }
}
