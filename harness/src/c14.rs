//! C14: spatial trees, bounding box, chains in contact, distances, overlaps; coordinates on an exact grid.
use crate::gen;
use crate::out::Out;
use crate::rng::Rng;
use crate::snap;
use crate::sx::*;
use pdbtbx::*;

fn grid(rng: &mut Rng) -> f64 {
    rng.range(-512, 512) as f64 / 8.0
}
fn pt_sx(p: (f64, f64, f64)) -> Sx {
    l(vec![f(p.0), f(p.1), f(p.2)])
}
fn id_atom(a: &Atom) -> Sx {
    l(vec![z(a.serial_number() as i128), s(a.name())])
}

pub fn run(seed: u64, count: usize, _thorough: bool, out: &mut Out) {
    let mut rng = Rng::new(seed);
    for i in 0..count {
        let cfg = gen::Ragged { allow_empty: i % 4 == 0, max_models: 2, max_children: 3, max_atoms: 3, serial_range: 40 };
        let mut p = gen::ragged(&mut rng, &cfg);
        // coordinates on the 1/8 grid; a few coincident atoms; a compact cloud so that queries hit
        let span = if i % 3 == 0 { 16 } else { 128 };
        let mut last = (0.0, 0.0, 0.0);
        for a in p.atoms_mut() {
            let q = if rng.chance(1, 8) { last } else { (rng.range(-span, span) as f64 / 8.0, rng.range(-span, span) as f64 / 8.0, rng.range(-span, span) as f64 / 8.0) };
            let _ = a.set_pos(q);
            last = q;
        }
        // every third structure: a second model that repeats the chain names far away from the first
        if i % 3 == 1 {
            if let Some(m) = p.model(0).cloned() {
                let mut far = m;
                let shift = TransformationMatrix::translation(*rng.pick(&[400.0, -300.0, 0.0]), *rng.pick(&[250.0, 0.0]), 125.0);
                far.apply_transformation(&shift);
                far.set_serial_number(9);
                p.add_model(far);
            }
        }
        let psx = snap::pdb(&p, &snap::atom);
        let n_atoms = p.total_atom_count();
        // bounding box
        let (lo, hi) = p.bounding_box();
        out.case("C14", call("bbox", vec![psx.clone()]), l(vec![pt_sx(lo), pt_sx(hi)]), "prop:bounding-box", n_atoms > 1);
        // chains in contact, cut-offs off the attainable distances
        // (all cut-offs: also zero, negative ones - nothing is closer than that - and ones whose square is not a binary64 number)
        let cutoff = match rng.below(12) {
            0 => 0.0,
            1 => -(rng.range(0, 40) as f64 / 8.0 + 1.0 / 16.0),
            2 => *rng.pick(&[1e-170, 1e-200, -1e-170, -100.0625]),
            _ => rng.range(0, 40) as f64 / 8.0 + 1.0 / 16.0,
        };
        let mut contacts: Vec<(String, Vec<String>)> = p.chains_in_contact(cutoff).into_iter().collect();
        contacts.sort();
        let csx = l(contacts
            .into_iter()
            .map(|(k, mut v)| {
                v.sort();
                l(vec![s(&k), l(v.iter().map(|x| s(x)).collect())])
            })
            .collect());
        let nontrivial = csx != l(vec![]);
        out.case("C14", call("contacts", vec![psx.clone(), f(cutoff)]), csx, "prop:chains-in-contact", nontrivial);
        out.count(if nontrivial { "contacts-nonempty" } else { "contacts-empty" });
        // spatial trees
        let atoms: Vec<&Atom> = p.atoms().collect();
        let index_of = |a: &Atom| atoms.iter().position(|x| std::ptr::eq(*x, a)).map_or(-1, |k| k as i128);
        let tree = p.create_atom_rtree();
        let htree = p.create_hierarchy_rtree();
        // every atom exactly once
        let mut all: Vec<i128> = tree.iter().map(|a| index_of(a)).collect();
        all.sort();
        out.case("C14", call("within", vec![psx.clone(), pt_sx((0.0, 0.0, 0.0)), f(1e9)]), l(all.into_iter().map(Sx::Z).collect()), "prop:tree-contains-all", n_atoms > 0);
        let mut allh: Vec<i128> = htree.iter().map(|h| index_of(h.atom())).collect();
        allh.sort();
        out.case("C14", call("within", vec![psx.clone(), pt_sx((0.0, 0.0, 0.0)), f(1e9)]), l(allh.into_iter().map(Sx::Z).collect()), "prop:hierarchy-tree-contains-all", n_atoms > 0);
        for _ in 0..3 {
            // a third of the queries: a radius below one, close to an atom
            let small = !atoms.is_empty() && rng.chance(1, 3);
            let c = if small {
                let base = atoms[rng.below(atoms.len())].pos();
                (base.0 + rng.range(-6, 6) as f64 / 8.0, base.1 + rng.range(-6, 6) as f64 / 8.0, base.2 + rng.range(-6, 6) as f64 / 8.0)
            } else if !atoms.is_empty() && rng.chance(3, 4) {
                let base = atoms[rng.below(atoms.len())].pos();
                (base.0 + rng.range(-16, 16) as f64 / 8.0, base.1 + rng.range(-16, 16) as f64 / 8.0, base.2 + rng.range(-16, 16) as f64 / 8.0)
            } else {
                (grid(&mut rng) / 4.0, grid(&mut rng) / 4.0, grid(&mut rng) / 4.0)
            };
            let r2 = if small { rng.range(0, 80) as f64 / 64.0 + 1.0 / 128.0 } else { rng.range(0, 4000) as f64 / 64.0 + 1.0 / 128.0 };
            let mut found: Vec<i128> = tree.locate_within_distance(c, r2).map(|a| index_of(a)).collect();
            found.sort();
            let nonempty = !found.is_empty();
            out.case("C14", call("within", vec![psx.clone(), pt_sx(c), f(r2)]), l(found.iter().map(|k| Sx::Z(*k)).collect()), "prop:radius-query", nonempty);
            let hits: Vec<_> = htree.locate_within_distance(c, r2).collect();
            let mut hfound: Vec<i128> = hits.iter().map(|h| index_of(h.atom())).collect();
            hfound.sort();
            out.case("C14", call("within", vec![psx.clone(), pt_sx(c), f(r2)]), l(hfound.iter().map(|k| Sx::Z(*k)).collect()), "prop:hierarchy-radius-query", nonempty);
            // ancestors of every returned tuple
            let idxs: Vec<i128> = hits.iter().map(|h| index_of(h.atom())).collect();
            let anc: Vec<Sx> = hits
                .iter()
                .map(|h| {
                    l(vec![
                        id_atom(h.atom()),
                        l(vec![s(h.conformer().name()), opt(h.conformer().alternative_location(), s)]),
                        l(vec![z(h.residue().serial_number() as i128), opt(h.residue().insertion_code(), s)]),
                        s(h.chain().id()),
                        z(h.model().serial_number() as i128),
                    ])
                })
                .collect();
            out.case("C14", call("awh", vec![psx.clone(), l(idxs.into_iter().map(Sx::Z).collect())]), l(anc), "prop:hierarchy-ancestors", nonempty);
            out.count(if nonempty { "query-nonempty" } else { "query-empty" });
            // nearest neighbours: distances come back in non-decreasing order and are all there
            let d2s: Vec<Sx> = tree.nearest_neighbor_iter(&c).map(|a| {
                let (x, y, zz) = a.pos();
                f((x - c.0) * (x - c.0) + (y - c.1) * (y - c.1) + (zz - c.2) * (zz - c.2))
            }).collect();
            out.case("C14", call("nearest", vec![psx.clone(), pt_sx(c)]), l(d2s), "prop:nearest-neighbour-order", n_atoms > 1);
        }
        // distances between atoms
        if atoms.len() >= 2 {
            for _ in 0..4 {
                let a = atoms[rng.below(atoms.len())];
                let b2 = atoms[rng.below(atoms.len())];
                let d = a.distance(b2);
                out.case("C14", call("dist", vec![pt_sx(a.pos()), pt_sx(b2.pos()), f(d)]), y("ok"), "prop:distance-euclidean", true);
                out.case("C14", call("dist", vec![pt_sx(a.pos()), pt_sx(b2.pos()), f(b2.distance(a))]), y("ok"), "prop:distance-symmetric", true);
                for (which, r) in [("unbound", a.overlaps(b2)), ("bound", a.overlaps_bound(b2))] {
                    let args = vec![y(which), opt(a.element(), |e| z(e.atomic_number() as i128)), opt(b2.element(), |e| z(e.atomic_number() as i128)), f(d)];
                    out.case("C14", call("overlaps", args), opt(r, b), "prop:overlaps", r.is_some());
                }
            }
        }
        // arbitrary finite coordinates: some so far out, or so close together, that the squares of their differences are not binary64 numbers
        if i % 16 == 5 {
            for (pa, pb) in [((1e200, 0.0, 0.0), (-1e200, 0.0, 0.0)), ((3e160, 4e160, 0.0), (0.0, 0.0, 0.0)), ((1e-170, 0.0, 0.0), (0.0, 0.0, 0.0)), ((0.0, -2e-165, 1e-165), (0.0, 0.0, 0.0))] {
                let a = Atom::new(false, 1, "", "C", pa.0, pa.1, pa.2, 1.0, 0.0, "C", 0).expect("atom");
                let b2 = Atom::new(false, 2, "", "C", pb.0, pb.1, pb.2, 1.0, 0.0, "C", 0).expect("atom");
                out.case("C14", call("dist", vec![pt_sx(pa), pt_sx(pb), f(a.distance(&b2))]), y("ok"), "prop:distance-euclidean", true);
            }
        }
        // wrapped distance inside an orthogonal cell
        let cell_edges = (rng.range(8, 160) as f64 / 8.0, rng.range(8, 160) as f64 / 8.0, rng.range(8, 160) as f64 / 8.0);
        let cell = UnitCell::new(cell_edges.0, cell_edges.1, cell_edges.2, 90.0, 90.0, 90.0);
        for k in 0..8 {
            let inside = |r: &mut Rng, e: f64| (r.below((e * 8.0) as usize) as f64) / 8.0;
            let pa = (inside(&mut rng, cell_edges.0), inside(&mut rng, cell_edges.1), inside(&mut rng, cell_edges.2));
            let mut pb = (inside(&mut rng, cell_edges.0), inside(&mut rng, cell_edges.1), inside(&mut rng, cell_edges.2));
            if k >= 4 && cell_edges.0 >= 12.0 {
                // aimed: the image across the x face at a distance between 2 and 6 (where the sums of the radii columns lie)
                let off = 2.0 + rng.below(33) as f64 / 8.0;
                pb = ((pa.0 + cell_edges.0 - off) % cell_edges.0, pa.1, pa.2);
            }
            // elements with radii in every column, with a radius missing in one column only (Pm, Bk), and light / heavy ones
            let ea = *rng.pick(&["C", "ZN", "HE", "K", "PM", "BK", "H", "O"]);
            let eb = *rng.pick(&["C", "ZN", "HE", "K", "PM", "BK", "H", "O"]);
            let a = Atom::new(false, 1, "", ea, pa.0, pa.1, pa.2, 1.0, 0.0, ea, 0).expect("atom");
            let b2 = Atom::new(false, 2, "", eb, pb.0, pb.1, pb.2, 1.0, 0.0, eb, 0).expect("atom");
            let d = a.distance_wrapping(&b2, &cell);
            let args = vec![pt_sx(pa), pt_sx(pb), pt_sx(cell_edges), f(d)];
            out.case("C14", call("wrapdist", args), y("ok"), "prop:wrapped-distance", true);
            for (which, r) in [("bound", a.overlaps_bound_wrapping(&b2, &cell)), ("unbound", a.overlaps_wrapping(&b2, &cell))] {
                let args = vec![y(which), opt(a.element(), |e| z(e.atomic_number() as i128)), opt(b2.element(), |e| z(e.atomic_number() as i128)), f(d)];
                out.case("C14", call("overlaps", args), opt(r, b), "prop:overlaps-wrapping", true);
            }
        }
    }
}
