//! C11: sort, renumber, binary look-up, bonds.
use crate::gen;
use crate::out::Out;
use crate::rng::Rng;
use crate::snap;
use crate::sx::*;
use pdbtbx::*;

fn found(h: Option<AtomConformerResidueChainModel<'_>>) -> Sx {
    match h {
        None => y("-"),
        Some(h) => l(vec![
            snap::atom_short(h.atom()),
            l(vec![s(h.conformer().name()), opt(h.conformer().alternative_location(), s)]),
            l(vec![z(h.residue().serial_number() as i128), opt(h.residue().insertion_code(), s)]),
            s(h.chain().id()),
            z(h.model().serial_number() as i128),
        ]),
    }
}
fn found_mut(h: Option<AtomConformerResidueChainModelMut<'_>>) -> Sx {
    match h {
        None => y("-"),
        Some(h) => l(vec![
            snap::atom_short(h.atom()),
            l(vec![s(h.conformer().name()), opt(h.conformer().alternative_location(), s)]),
            l(vec![z(h.residue().serial_number() as i128), opt(h.residue().insertion_code(), s)]),
            s(h.chain().id()),
            z(h.model().serial_number() as i128),
        ]),
    }
}

pub fn run(seed: u64, count: usize, thorough: bool, out: &mut Out) {
    let mut rng = Rng::new(seed);
    let short = |p: &PDB| snap::pdb(p, &snap::atom_short);
    // base26 letters
    for n in (0..60).chain([675, 676, 677, 701, 702, 703, 17575, 17576, 18277, 18278, 456_975, 456_976]) {
        out.case("C11", call("base26", vec![z(n as i128)]), s(&number_to_base26(n)), "prop:base26", n >= 26);
    }
    for i in 0..count {
        // ---- sort: arbitrary shapes, duplicate and unordered identifiers
        let cfg = gen::Ragged { max_children: if i % 7 == 0 { 6 } else { 3 }, max_atoms: 4, ..Default::default() };
        let p = gen::ragged(&mut rng, &cfg);
        let before = short(&p);
        let mut a = p.clone();
        a.full_sort();
        let mut bp = p.clone();
        bp.par_full_sort();
        out.case("C11", call("fullsort", vec![before.clone()]), short(&a), "prop:full_sort", p.total_atom_count() > 1);
        out.case("C11", call("fullsort", vec![before.clone()]), short(&bp), "prop:par_full_sort", p.total_atom_count() > 1);
        out.count("sort");
        // ---- large containers with many tied identifiers (an unstable sort only shows beyond ~20 elements)
        if i % 6 == 0 {
            let mut big = PDB::new();
            let mut model = Model::new(1);
            let mut chain = Chain::new("A").expect("chain");
            let n_res = 25 + rng.below(if thorough { 200 } else { 60 });
            for k in 0..n_res {
                let ic = *rng.pick(&[None, Some("A")]);
                let mut r = Residue::new(rng.range(1, 3) as isize, ic, None).expect("residue");
                let mut c = Conformer::new(*rng.pick(&["ALA", "GLY"]), None, None).expect("conformer");
                // the atom serial identifies the residue (position before the sort) so that a reordering of ties is visible
                c.add_atom(gen::short_atom(&mut rng, 1000 + k));
                if k == 0 {
                    for j in 0..(25 + rng.below(40)) {
                        let ser = 5 + rng.below(3);
                        let mut a = gen::short_atom(&mut rng, ser);
                        let _ = a.set_name(format!("N{j}"));
                        c.add_atom(a);
                    }
                }
                r.add_conformer(c);
                chain.add_residue(r);
            }
            model.add_chain(chain);
            big.add_model(model);
            let before = short(&big);
            let mut a = big.clone();
            a.full_sort();
            let mut bp = big.clone();
            bp.par_full_sort();
            out.case("C11", call("fullsort", vec![before.clone()]), short(&a), "prop:full_sort", true);
            out.case("C11", call("fullsort", vec![before]), short(&bp), "prop:par_full_sort", true);
            out.count("sort-large-ties");
        }
        // ---- renumber (any shape), idempotence
        let mut r = p.clone();
        r.renumber();
        out.case("C11", call("renumber", vec![before.clone()]), short(&r), "prop:renumber", p.total_atom_count() > 1);
        let mut r2 = r.clone();
        r2.renumber();
        out.case("C11", call("renumber2", vec![before.clone()]), short(&r2), "prop:renumber-idempotent", p.total_atom_count() > 1);
        out.count("renumber");
        // ---- binary look-up on a renumbered structure without empty containers
        let cfg = gen::Ragged { allow_empty: false, max_models: 2, max_children: if i % 5 == 0 { 7 } else { 3 }, max_atoms: 3, ..Default::default() };
        let mut q = gen::ragged(&mut rng, &cfg);
        if i % 2 == 0 {
            q.full_sort();
        }
        q.renumber();
        let qs = short(&q);
        let n_first = q.model(0).map_or(0, |m| m.atom_count());
        let mut alts: Vec<Option<String>> = vec![None, Some("A".into()), Some("B".into()), Some("C".into())];
        alts.push(Some("Z".into()));
        let limit = if thorough { n_first + 3 } else { (n_first + 3).min(14) };
        for serial in 0..limit {
            for alt in &alts {
                if !thorough && serial > 0 && rng.chance(1, 2) {
                    continue;
                }
                let obs = crate::guarded(|| found(q.binary_find_atom(serial, alt.as_deref()))).unwrap_or(y("panic"));
                let args = vec![qs.clone(), z(serial as i128), opt(alt.as_deref(), s)];
                let present = obs != y("-");
                out.case("C11", call("linfind", args.clone()), obs.clone(), "prop:binary_find=linear", present);
                out.case("C11", call("binfind", args.clone()), obs.clone(), "corr:binary_find", present);
                let mut qm = q.clone();
                let obs_m = crate::guarded(|| found_mut(qm.binary_find_atom_mut(serial, alt.as_deref()))).unwrap_or(y("panic"));
                out.case("C11", call("linfind", args), obs_m, "prop:binary_find_mut=linear", present);
                out.count(if present { "query-present" } else { "query-absent" });
            }
        }
        // ---- bonds through the look-up
        let mut qb = q.clone();
        let mut queries = Vec::new();
        let mut oks = Vec::new();
        let mut panicked = false;
        for _ in 0..3 {
            let n1 = rng.below(n_first + 2);
            let n2 = rng.below(n_first + 2);
            let a1 = rng.pick(&alts[..3]).clone();
            let a2 = rng.pick(&alts[..3]).clone();
            let r = crate::guarded(|| qb.add_bond((n1, a1.as_deref()), (n2, a2.as_deref()), Bond::Covalent));
            match r {
                Some(r) => oks.push(b(r.is_some())),
                None => panicked = true,
            }
            queries.push(l(vec![z(n1 as i128), opt(a1.as_deref(), s), z(n2 as i128), opt(a2.as_deref(), s)]));
        }
        let bonds = crate::guarded(|| {
            qb.bonds().map(|(x, y2, _)| l(vec![snap::atom_short(x), snap::atom_short(y2)])).collect::<Vec<_>>()
        });
        let obs = match (bonds, panicked) {
            (Some(bs), false) => l(vec![l(oks), l(bs)]),
            _ => y("panic"),
        };
        out.case("C11", call("bonds", vec![qs.clone(), l(queries)]), obs, "prop:bonds", true);
        out.count("bonds");
    }
}
